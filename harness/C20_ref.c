/* C20 reference definitions: plain C, handed to CBMC directly (never seen by clang, so the optimiser cannot
   normalise reference and implementation to the same intrinsic).  Loops are bounded by the concrete `bits`. */
#include <stdint.h>
#ifdef __cplusplus
extern "C" {
#endif
uint32_t verif_ref_clz(uint64_t x, uint32_t bits) { uint32_t r = 0; for (int i = (int)bits - 1; i >= 0; --i) { if ((x >> i) & 1) break; ++r; } return r; }
uint32_t verif_ref_ctz(uint64_t x, uint32_t bits) { uint32_t r = 0; for (uint32_t i = 0; i < bits; ++i) { if ((x >> i) & 1) break; ++r; } return r; }
uint32_t verif_ref_popcount(uint64_t x, uint32_t bits) { uint32_t r = 0; for (uint32_t i = 0; i < bits; ++i) r += (uint32_t)((x >> i) & 1); return r; }
/* floor(log2 x) for x > 0: the largest p with 2^p <= x */
uint32_t verif_ref_log2floor(uint64_t x, uint32_t bits) { uint32_t p = 0; for (uint32_t i = 0; i < bits; ++i) if ((x >> i) & 1) p = i; return p; }
/* ceil(log2 x) for x >= 1: the smallest p with 2^p >= x */
uint32_t verif_ref_log2ceil(uint64_t x, uint32_t bits) { uint32_t p = verif_ref_log2floor(x, bits); return (x == ((uint64_t)1 << p)) ? p : p + 1; }
uint64_t verif_ref_bswap(uint64_t x, uint32_t bytes) { uint64_t r = 0; for (uint32_t i = 0; i < bytes; ++i) r |= ((x >> (8 * i)) & 0xFF) << (8 * (bytes - 1 - i)); return r; }
/* rotate left by c (0 <= c < bits): bit i of x becomes bit (i + c) mod bits */
uint64_t verif_ref_rol(uint64_t x, uint32_t bits, uint32_t c) { uint64_t r = 0; for (uint32_t i = 0; i < bits; ++i) if ((x >> i) & 1) r |= (uint64_t)1 << ((i + c) % bits); return r; }
/* smallest power of two >= x (x >= 1), 0 if it needs more than `bits` bits */
uint64_t verif_ref_pow2_ge(uint64_t x, uint32_t bits) { for (uint32_t k = 0; k < bits; ++k) if (((uint64_t)1 << k) >= x) return (uint64_t)1 << k; return 0; }
/* largest power of two <= x (x >= 1) */
uint64_t verif_ref_pow2_le(uint64_t x, uint32_t bits) { uint64_t r = 0; for (uint32_t k = 0; k < bits; ++k) if (((uint64_t)1 << k) <= x) r = (uint64_t)1 << k; return r; }
#ifdef __cplusplus
}
#endif
