// C17 (part 1): SplayTree is a correct ordered (multi)set and frees every node exactly once (DESIGN.md §4 C17)
#include "verif.hpp"
#include <tlx/container/splay_tree.hpp>
#ifndef H
#define H 4
#endif
#ifndef DUP
#define DUP 0
#endif
#ifndef NKEY
#define NKEY 4
#endif
#define MAXN 6
typedef tlx::SplayTree<uint8_t, std::less<uint8_t>, DUP != 0> Tree;
struct Collect { uint8_t* out; unsigned* n; void operator()(const uint8_t& k) const { if (*n < MAXN + 1) out[*n] = k; ++*n; } };

HARNESS(h_splay)
{
    Tree* t = new Tree();
    unsigned cnt[NKEY]; unsigned total = 0;
    for (unsigned k = 0; k < NKEY; ++k) cnt[k] = 0;
#ifdef PRE      // concrete prefix script: a run of three equivalent keys (PRE >= 1) and a smaller key on top (PRE >= 2)
    for (unsigned i = 0; i < 3; ++i) { if (t->insert(1)) { cnt[1]++; total++; } if (!DUP) break; }
#if PRE >= 2
    if (t->insert(0)) { cnt[0]++; total++; }
#endif
#endif
    for (unsigned step = 0; step < H; ++step) {
        unsigned op = nondet_below(6); uint8_t k = (uint8_t)nondet_below(NKEY); OBS(op * 4 + k);
        switch (op) {
        case 0: case 1: if (total < MAXN) { bool r = t->insert(k); bool exp = DUP ? true : cnt[k] == 0; CHECK(r == exp, "insert reports whether a new element was added"); if (exp) { cnt[k]++; total++; } } break;
        case 2: { bool r = t->erase(k); CHECK(r == (cnt[k] > 0), "erase reports whether an element was removed"); if (cnt[k] > 0) { cnt[k]--; total--; } } break;
        case 3: {
#ifdef KF_EXISTS_EMPTY
            if (total == 0) break;
#endif
            CHECK(t->exists(k) == (cnt[k] > 0), "exists() equals membership in the reference (multi)set"); } break;
        case 4: { Tree::Node* n = t->find(k); if (cnt[k] > 0) CHECK(n != nullptr && n->key == k, "find() returns a node holding the key when it is present");
                  else CHECK(n == nullptr || n->key != k, "find() does not return the key when it is absent"); if (total == 0) CHECK(n == nullptr, "find() on an empty tree returns null"); } break;
        default: t->clear(); for (unsigned j = 0; j < NKEY; ++j) cnt[j] = 0; total = 0; break;
        }
        CHECK(t->size() == total && t->empty() == (total == 0), "size()/empty() equal the reference (multi)set");
        // in-order traversal equals the sorted reference sequence (this also shows the tree is a valid search tree)
        uint8_t seq[MAXN + 1]; unsigned n = 0; Collect c{seq, &n}; t->traverse_preorder(c);
        CHECK(n == total, "traversal visits exactly size() keys");
        unsigned idx = 0;
        for (uint8_t key = 0; key < NKEY; ++key) for (unsigned r = 0; r < MAXN; ++r) if (r < cnt[key]) { if (idx < n && idx < MAXN + 1) CHECK(seq[idx] == key, "in-order key sequence equals the sorted reference sequence"); ++idx; }
        if (!DUP) CHECK(t->check(), "the library's own search-tree check passes");
    }
    REACH("splay history done");
    delete t;     // with --memory-leak-check: every node freed exactly once
}
