// C14 obligation 3: siphash == SipHash-2-4 for every key and message, identically in the portable and the SSE2 implementation
#include "verif.hpp"
#include <tlx/siphash.hpp>
extern "C" uint64_t verif_ref_siphash24(const uint8_t* k, const uint8_t* m, uint64_t len);
#ifndef LEN
#define LEN 9
#endif
#ifndef OFF
#define OFF 0
#endif
HARNESS(h_siphash)
{
    alignas(16) uint8_t buf[LEN + OFF + 8]; uint8_t key[16];
    for (unsigned i = 0; i < 16; ++i) key[i] = nondet_u8();
    for (unsigned i = 0; i < LEN + OFF; ++i) buf[i] = nondet_u8();
    const uint8_t* m = buf + OFF;                         // message alignment OFF mod 8
    uint64_t ref = verif_ref_siphash24(key, m, LEN);
#ifndef WHICH
#define WHICH 0
#endif
#if WHICH == 0 || WHICH == 1
    CHECK(tlx::siphash_plain(key, m, LEN) == ref, "siphash_plain == SipHash-2-4");
#endif
#if defined(__SSE2__) && (WHICH == 0 || WHICH == 2)
    CHECK(tlx::siphash_sse2(key, m, LEN) == ref, "siphash_sse2 == SipHash-2-4");
#endif
#if WHICH == 0 || WHICH == 3
    CHECK(tlx::siphash(key, m, LEN) == ref, "siphash(key, msg, size) == SipHash-2-4");
    static const uint8_t dk[16] = {0, 1, 2, 3, 4, 5, 6, 7, 8, 9, 10, 11, 12, 13, 14, 15};
    CHECK(tlx::siphash(m, (size_t)LEN) == verif_ref_siphash24(dk, m, LEN), "siphash(msg, size) uses the documented default key");
#endif
    REACH("siphash compared");
}
