// C03: sort_strings yields a sorted permutation and exact LCP values (DESIGN.md §4 C03)
// n strings (enumerated by -D), each a NUL-terminated buffer of at most MAXLEN bytes with symbolic content; algorithm selected by -DALGO.
#include "verif.hpp"
#include <string>
#include <tlx/sort/strings.hpp>
#include <tlx/sort/strings/insertion_sort.hpp>
#include <tlx/sort/strings/multikey_quicksort.hpp>
#include <tlx/sort/strings/radix_sort.hpp>
#ifndef N
#define N 3
#endif
#ifndef MAXLEN
#define MAXLEN 2
#endif
#ifndef ALGO
#define ALGO 0     // 0 sort_strings (public), 1 insertion_sort, 2 multikey_quicksort, 3 radixsort_CE0, 4 CE2, 5 CE3, 6 CI2, 7 CI3
#endif
#ifndef WITH_LCP
#define WITH_LCP 0
#endif
#ifndef MEMORY
#define MEMORY 0
#endif
namespace sd = tlx::sort_strings_detail;
static unsigned char buf[N + 1][MAXLEN + 2];
static int cmp_str(const unsigned char* a, const unsigned char* b) { for (unsigned i = 0;; ++i) { if (a[i] != b[i]) return a[i] < b[i] ? -1 : 1; if (a[i] == 0) return 0; if (i > MAXLEN) return 0; } }
static unsigned lcp_of(const unsigned char* a, const unsigned char* b) { unsigned i = 0; while (i <= MAXLEN && a[i] != 0 && a[i] == b[i]) ++i; return i; }

template <typename SP> static void run_algo(const SP& sp, size_t memory)
{
#if ALGO == 1
    sd::insertion_sort(sp, 0, memory);
#elif ALGO == 2
    sd::multikey_quicksort(sp, 0, memory);
#elif ALGO == 3
    sd::radixsort_CE0(sp, 0, memory);
#elif ALGO == 4
    sd::radixsort_CE2(sp, 0, memory);
#elif ALGO == 5
    sd::radixsort_CE3(sp, 0, memory);
#elif ALGO == 6
    sd::radixsort_CI2(sp, 0, memory);
#else
    sd::radixsort_CI3(sp, 0, memory);
#endif
}
HARNESS(h_strsort)
{
    unsigned char* strs[N + 1]; uint32_t lcp[N + 1];
    for (unsigned s = 0; s < N; ++s) {
        for (unsigned i = 0; i < MAXLEN; ++i) buf[s][i] = nondet_u8();     // a 0 byte ends the string early: every length 0..MAXLEN, duplicates and prefixes included
        buf[s][MAXLEN] = 0; buf[s][MAXLEN + 1] = 0x55;
        strs[s] = buf[s]; lcp[s] = 0xDEAD;
    }
    size_t memory = MEMORY;
#if ALGO == 0
#if WITH_LCP
    tlx::sort_strings_lcp(strs, (size_t)N, lcp, memory);
#else
    tlx::sort_strings(strs, (size_t)N, memory);
#endif
#else
#if WITH_LCP
    run_algo(sd::StringLcpPtr<sd::UCharStringSet, uint32_t>(sd::UCharStringSet(strs, strs + N), lcp), memory);
#else
    run_algo(sd::StringPtr<sd::UCharStringSet>(sd::UCharStringSet(strs, strs + N)), memory);
#endif
#endif
    // permutation of the original string objects (identity by address)
    unsigned seen = 0;
    for (unsigned i = 0; i < N; ++i) {
        bool found = false;
        for (unsigned s = 0; s < N; ++s) if (strs[i] == buf[s]) { CHECK(!(seen >> s & 1), "no string object appears twice"); seen |= 1u << s; found = true; }
        CHECK(found, "every output entry is one of the original string objects");
    }
    for (unsigned i = 0; i + 1 < N; ++i) CHECK(cmp_str(strs[i], strs[i + 1]) <= 0, "output is in non-decreasing unsigned-byte lexicographic order");
#if WITH_LCP
    for (unsigned i = 1; i < N; ++i) CHECK(lcp[i] == lcp_of(strs[i - 1], strs[i]), "lcp[i] is the length of the longest common prefix of neighbours i-1 and i");
#endif
    REACH("strings sorted");
}
// ---------------------------------------------------------------- std::string sets
HARNESS(h_strsort_std)
{
    std::string strs[N];
    char tmp[N][MAXLEN + 1];
    for (unsigned s = 0; s < N; ++s) { unsigned len = nondet_below(MAXLEN + 1); for (unsigned i = 0; i < MAXLEN; ++i) { tmp[s][i] = (char)nondet_u8(); ASSUME(tmp[s][i] != 0); } strs[s] = std::string(tmp[s], len); }
    unsigned lens[N]; for (unsigned s = 0; s < N; ++s) lens[s] = (unsigned)strs[s].size();
    tlx::sort_strings(strs, (size_t)N, (size_t)MEMORY);
    for (unsigned i = 0; i + 1 < N; ++i) CHECK(cmp_str((const unsigned char*)strs[i].c_str(), (const unsigned char*)strs[i + 1].c_str()) <= 0, "std::string set: output is in non-decreasing order");
    // multiset of contents preserved: every original content appears as often as before
    for (unsigned s = 0; s < N; ++s) { unsigned before = 0, after = 0;
        for (unsigned t = 0; t < N; ++t) { bool eqb = lens[t] == lens[s]; for (unsigned i = 0; i < MAXLEN; ++i) if (i < lens[s] && eqb && tmp[t][i] != tmp[s][i]) eqb = false; if (eqb) ++before;
            bool eqa = strs[t].size() == lens[s]; for (unsigned i = 0; i < MAXLEN; ++i) if (i < lens[s] && eqa && strs[t][i] != tmp[s][i]) eqa = false; if (eqa) ++after; }
        CHECK(before == after, "std::string set: the output is a permutation of the input strings"); }
    REACH("std strings sorted");
}
template class std::basic_string<char>;
