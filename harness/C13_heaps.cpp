// C13: the heaps always surface a minimum element and track membership correctly (DESIGN.md §4 C13)
#include "verif.hpp"
#include <vector>
#include <tlx/container/d_ary_heap.hpp>
#include <tlx/container/d_ary_addressable_int_heap.hpp>
#include <tlx/container/radix_heap.hpp>
#ifndef ARITY
#define ARITY 2
#endif
#ifndef H
#define H 4
#endif
#define MAXN 8
// ---------------------------------------------------------------- DAryHeap vs multiset model
#ifdef CMP_GREATER
struct KCmp { bool operator()(uint8_t a, uint8_t b) const { return a > b; } };
#else
struct KCmp { bool operator()(uint8_t a, uint8_t b) const { return a < b; } };
#endif
struct MS { uint8_t v[MAXN]; unsigned n; };
static unsigned ms_min(const MS& m) { KCmp c; unsigned b = 0; for (unsigned i = 1; i < MAXN; ++i) if (i < m.n && c(m.v[i], m.v[b])) b = i; return b; }
static void ms_del(MS& m, unsigned k) { for (unsigned i = 0; i + 1 < MAXN; ++i) if (i >= k && i + 1 < m.n) m.v[i] = m.v[i + 1]; m.n--; }

HARNESS(h_daryheap)
{
    tlx::DAryHeap<uint8_t, ARITY, KCmp> hp;
    MS m; m.n = 0; KCmp c;
#ifndef NORESERVE
    // all vectors get a concrete capacity of MAXN up front, so that std::vector's reallocation (symbolic-size allocation) is infeasible;
    // the reallocation paths are exercised by the NORESERVE configuration (thorough tier)
    { std::vector<uint8_t> init; init.reserve(MAXN); hp.build_heap(std::move(init)); }
#endif
    for (unsigned step = 0; step < H; ++step) {
        unsigned op = nondet_below(7); uint8_t x = nondet_u8(); OBS(op);
        switch (op) {
        case 0: case 1: if (m.n < MAXN) { hp.push(x); m.v[m.n++] = x; } break;
        case 2: if (m.n > 0) { hp.pop(); ms_del(m, ms_min(m)); } break;
        case 3: if (m.n > 0) { uint8_t t = hp.extract_top(); unsigned k = ms_min(m); CHECK(!c(t, m.v[k]) && !c(m.v[k], t), "extract_top returns a minimum element"); ms_del(m, k); } break;
        case 4: { unsigned n = nondet_below(4); std::vector<uint8_t> ks; ks.reserve(MAXN); ks.resize(n); for (unsigned i = 0; i < 3; ++i) if (i < n) ks[i] = nondet_u8();
                  m.n = n; for (unsigned i = 0; i < 3; ++i) if (i < n) m.v[i] = ks[i];
                  if (nondet_bool()) hp.build_heap(ks); else hp.build_heap(std::move(ks)); } break;
        case 5: hp.clear(); m.n = 0; break;
        default: hp.update_all(); break;
        }
        CHECK(hp.size() == m.n && hp.empty() == (m.n == 0), "size()/empty() equal the multiset model");
        if (m.n > 0) { uint8_t t = hp.top(); unsigned k = ms_min(m); CHECK(!c(m.v[k], t), "top() is not greater than any stored element");
                       bool found = false; for (unsigned i = 0; i < MAXN; ++i) if (i < m.n && m.v[i] == t) found = true; CHECK(found, "top() is a stored element"); }
    }
    // drain: yields the stored multiset in non-decreasing order
    for (unsigned i = 0; i < MAXN; ++i) {
        if (m.n == 0) break;
        uint8_t t = hp.extract_top(); unsigned k = ms_min(m);
        CHECK(!c(t, m.v[k]) && !c(m.v[k], t), "draining yields the stored multiset in non-decreasing order");
        bool found = false; unsigned at = 0; for (unsigned j = 0; j < MAXN; ++j) if (j < m.n && m.v[j] == t && !found) { found = true; at = j; }
        CHECK(found, "drained element was stored"); if (found) ms_del(m, at); else break;
    }
    CHECK(hp.empty(), "heap is empty after draining");
    REACH("d-ary heap history done");
}

// ---------------------------------------------------------------- DAryAddressableIntHeap with an external priority table
#define NK 6
static uint8_t prio[NK];
struct PCmp { bool operator()(uint8_t a, uint8_t b) const { return prio[a] < prio[b]; } };
HARNESS(h_addrheap)
{
    tlx::DAryAddressableIntHeap<uint8_t, ARITY, PCmp> hp;
    bool present[NK]; unsigned n = 0;
    for (unsigned k = 0; k < NK; ++k) { present[k] = false; prio[k] = nondet_u8(); }
#ifndef NORESERVE
    hp.reserve(MAXN);    // concrete capacity for heap_ and handles_ (see h_daryheap); NORESERVE exercises the growth paths
#endif
    for (unsigned step = 0; step < H; ++step) {
        unsigned op = nondet_below(8); uint8_t k = (uint8_t)nondet_below(NK); OBS(op * 8 + k);
        switch (op) {
        case 0: if (!present[k]) { hp.push(k); present[k] = true; ++n; } break;
        case 1: if (!present[k]) { hp.push(uint8_t(k + 0)); present[k] = true; ++n; } break;   // the rvalue overload of push
        case 2: if (n > 0) { uint8_t t = hp.top(); hp.pop(); CHECK(t < NK && present[t], "popped key was stored"); if (t < NK) { present[t] = false; --n; } } break;
        case 3: if (n > 0) { uint8_t t = hp.extract_top(); CHECK(t < NK && present[t], "extracted key was stored");
                    if (t < NK) { for (unsigned j = 0; j < NK; ++j) if (present[j]) CHECK(!(prio[j] < prio[t]), "extract_top returns a key of minimal priority"); present[t] = false; --n; } } break;
        case 4: if (present[k]) { hp.remove(k); present[k] = false; --n; } break;
        case 5: { prio[k] = nondet_u8(); bool was = present[k]; hp.update(k); if (!was) { present[k] = true; ++n; } } break;   // documented: update() adds an absent key
        case 6: { unsigned cnt = nondet_below(4); std::vector<uint8_t> ks; ks.reserve(MAXN); ks.resize(cnt); bool np[NK]; for (unsigned j = 0; j < NK; ++j) np[j] = false;
                  bool distinct = true;
                  for (unsigned i = 0; i < 3; ++i) if (i < cnt) { uint8_t kk = (uint8_t)nondet_below(NK); if (np[kk]) distinct = false; np[kk] = true; ks[i] = kk; }
                  ASSUME(distinct);    // keys must be unique (documented)
#ifdef KF_BUILD_NONEMPTY
                  ASSUME(n == 0);
#endif
                  if (nondet_bool()) hp.build_heap(ks); else hp.build_heap(ks.begin(), ks.end());
                  n = cnt; for (unsigned j = 0; j < NK; ++j) present[j] = np[j]; } break;
        default: hp.clear(); n = 0; for (unsigned j = 0; j < NK; ++j) present[j] = false; break;
        }
        CHECK(hp.size() == n && hp.empty() == (n == 0), "size()/empty() equal the model");
        for (uint8_t j = 0; j < NK; ++j) CHECK(hp.contains(j) == present[j], "contains() reflects exactly the current contents");
        CHECK(!hp.contains(NK) && !hp.contains(200), "contains() is false for keys never inserted");
        if (n > 0) { uint8_t t = hp.top(); CHECK(t < NK && present[t], "top() is a stored key");
                     if (t < NK) for (unsigned j = 0; j < NK; ++j) if (present[j]) CHECK(!(prio[j] < prio[t]), "top() has minimal priority among the stored keys"); }
    }
    REACH("addressable heap history done");
}

// ---------------------------------------------------------------- RadixHeap bucket kernel on the full key domain
#ifndef RADIX
#define RADIX 4
#endif
#ifndef RINT
#define RINT uint32_t
#endif
static inline RINT nondet_rint() { return (RINT)nondet_u64(); }
HARNESS(h_radix_bucket)
{
    typedef tlx::radix_heap_detail::BucketComputation<RADIX, RINT> BC; BC bc;
    const size_t NB = BC::num_buckets;
    RINT lim = nondet_rint(), x = nondet_rint(), y = nondet_rint();
    ASSUME(x >= lim && y >= x);
    size_t ix = bc(x, lim), iy = bc(y, lim);
    CHECK(ix < NB && iy < NB, "bucket index is below num_buckets");
    CHECK((ix == 0) == (x == lim), "bucket 0 holds exactly the keys equal to the insertion limit");
    CHECK(ix <= iy, "bucket index is monotone in the key (the first non-empty bucket holds the minimum)");
    // redistribution (reorganize_): with the minimum m of bucket b > 0 as new limit, every key of that bucket moves to a strictly smaller bucket,
    // and every key of a later bucket keeps its bucket
    RINT m = nondet_rint(); ASSUME(m >= lim && m <= x);
    size_t im = bc(m, lim);
    if (im == ix && ix > 0) CHECK(bc(x, m) < ix, "redistribution moves every key of the first non-empty bucket to a smaller bucket");
    if (im < iy && im > 0 && y >= m) CHECK(bc(y, m) == iy, "keys of later buckets keep their bucket when the limit advances");
    // bounds with limit 0
    size_t i0 = bc(x, 0);
    CHECK(bc.lower_bound(i0) <= x && x <= bc.upper_bound(i0), "lower_bound(idx) <= key <= upper_bound(idx) for limit 0");
    REACH("bucket kernel");
}
HARNESS(h_radix_rank)
{
    int8_t a8 = (int8_t)nondet_u8(), b8 = (int8_t)nondet_u8(); int16_t a16 = (int16_t)nondet_u16(), b16 = (int16_t)nondet_u16();
    int32_t a32 = (int32_t)nondet_u32(), b32 = (int32_t)nondet_u32(); int64_t a64 = (int64_t)nondet_u64(), b64 = (int64_t)nondet_u64();
    using namespace tlx::radix_heap_detail;
    CHECK((a8 < b8) == (IntegerRank<int8_t>::rank_of_int(a8) < IntegerRank<int8_t>::rank_of_int(b8)), "rank is order preserving (int8_t)");
    CHECK((a16 < b16) == (IntegerRank<int16_t>::rank_of_int(a16) < IntegerRank<int16_t>::rank_of_int(b16)), "rank is order preserving (int16_t)");
    CHECK((a32 < b32) == (IntegerRank<int32_t>::rank_of_int(a32) < IntegerRank<int32_t>::rank_of_int(b32)), "rank is order preserving (int32_t)");
    CHECK((a64 < b64) == (IntegerRank<int64_t>::rank_of_int(a64) < IntegerRank<int64_t>::rank_of_int(b64)), "rank is order preserving (int64_t)");
    CHECK(IntegerRank<int8_t>::int_at_rank(IntegerRank<int8_t>::rank_of_int(a8)) == a8 && IntegerRank<int64_t>::int_at_rank(IntegerRank<int64_t>::rank_of_int(a64)) == a64, "int_at_rank inverts rank_of_int");
    uint32_t u = nondet_u32(), v = nondet_u32();
    CHECK((u < v) == (IntegerRank<uint32_t>::rank_of_int(u) < IntegerRank<uint32_t>::rank_of_int(v)), "rank is order preserving (uint32_t)");
    REACH("rank");
}

// ---------------------------------------------------------------- whole RadixHeap: monotone operation histories vs multiset model
#ifndef RKEY
#define RKEY uint8_t
#endif
struct RIdent { RKEY operator()(const RKEY& v) const { return v; } };
#ifndef RMAXN
#define RMAXN 4
#endif
HARNESS(h_radixheap)
{
    typedef tlx::RadixHeap<RKEY, RIdent, RKEY, RADIX> Heap;
    Heap* hp = new Heap(); RKEY mv[RMAXN]; unsigned n = 0;
    bool has_limit = false; RKEY limit = 0;      // most recently extracted / inspected minimum: later keys must not be smaller (documented monotonicity)
    for (unsigned step = 0; step < H; ++step) {
#ifdef SCRIPT
        // scripted operation kinds (p push, e emplace, t top, o pop, k peak_top_key, s swap_top_bucket, c clear), symbolic keys
        static const char script[] = SCRIPT; const char ch = script[step];
        unsigned op = ch == 'p' ? 0 : ch == 'e' ? 1 : ch == 't' ? 2 : ch == 'o' ? 3 : ch == 'k' ? 4 : ch == 's' ? 5 : 6;
        RKEY x = (RKEY)nondet_u8(); OBS(op);
#else
        unsigned op = nondet_below(7); RKEY x = (RKEY)nondet_u8(); OBS(op);
#endif
        unsigned mi = 0; for (unsigned i = 1; i < RMAXN; ++i) if (i < n && mv[i] < mv[mi]) mi = i;
        switch (op) {
        case 0: case 1: if (n < RMAXN && (!has_limit || !(x < limit))) { if (op == 0) hp->push(x); else hp->emplace(x, x); mv[n++] = x; } break;
        case 2: if (n > 0) { CHECK(hp->top() == mv[mi], "top() is a minimum element"); has_limit = true; limit = mv[mi]; } break;
        case 3: if (n > 0) { has_limit = true; limit = mv[mi]; hp->pop(); for (unsigned i = mi; i + 1 < RMAXN; ++i) if (i + 1 < n) mv[i] = mv[i + 1]; --n; } break;
        case 4: if (n > 0) { CHECK(hp->peak_top_key() == mv[mi], "peak_top_key() is the smallest stored key"); } break;
        case 5: if (n > 0) { std::vector<RKEY> ex; ex.reserve(RMAXN); RKEY mk = mv[mi]; has_limit = true; limit = mk; hp->swap_top_bucket(ex);
                    unsigned cnt = 0; for (unsigned i = 0; i < RMAXN; ++i) if (i < n && mv[i] == mk) ++cnt;
                    CHECK(ex.size() == cnt, "swap_top_bucket hands out exactly the elements with the minimal key");
                    for (unsigned i = 0; i < RMAXN; ++i) if (i < ex.size()) CHECK(ex[i] == mk, "swap_top_bucket hands out minimal elements only");
                    unsigned w = 0; for (unsigned i = 0; i < RMAXN; ++i) if (i < n && mv[i] != mk) mv[w++] = mv[i]; n = w; } break;
        default: hp->clear(); n = 0; has_limit = false; break;
        }
        CHECK(hp->size() == n && hp->empty() == (n == 0), "size()/empty() equal the multiset model");
    }
#ifdef DRAIN
    // drain in non-decreasing order
    for (unsigned k = 0; k < RMAXN; ++k) {
        if (n == 0) break;
        unsigned mi = 0; for (unsigned i = 1; i < RMAXN; ++i) if (i < n && mv[i] < mv[mi]) mi = i;
        CHECK(hp->top() == mv[mi], "draining yields the stored multiset in non-decreasing order");
        hp->pop(); for (unsigned i = mi; i + 1 < RMAXN; ++i) if (i + 1 < n) mv[i] = mv[i + 1]; --n;
    }
    CHECK(hp->empty(), "heap is empty after draining");
#endif
    REACH("radix heap history done");
    delete hp;
}
