/* C17: the binary-only (libstdc++.so) pieces of std::list and std::unordered_map, modelled after libstdc++'s src/c++98/list.cc and
   src/c++11/hashtable_c++0x.cc.  Environment code, not tlx code; listed as assumptions in the evidence. */
#define NB struct S_struct_2estd_3a_3a__detail_3a_3a_List_node_base
void f__ZNSt8__detail15_List_node_base7_M_hookEPS0_(NB* self, NB* pos) { self->f0 = pos; self->f1 = pos->f1; pos->f1->f0 = self; pos->f1 = self; }
void f__ZNSt8__detail15_List_node_base9_M_unhookEv(NB* self) { NB* n = self->f0; NB* p = self->f1; p->f0 = n; n->f1 = p; }
void f__ZNSt8__detail15_List_node_base11_M_transferEPS0_S1_(NB* self, NB* first, NB* last)
{
    if (self != last) {
        last->f1->f0 = self; first->f1->f0 = last; self->f1->f0 = first;
        NB* tmp = self->f1; self->f1 = last->f1; last->f1 = first->f1; first->f1 = tmp;
    }
}
#define RP struct S_struct_2estd_3a_3a__detail_3a_3a_Prime_rehash_policy
static const uint64_t verif_primes[8] = {2, 5, 11, 23, 47, 97, 199, 409};
uint64_t f__ZNKSt8__detail20_Prime_rehash_policy11_M_next_bktEm(RP* p, uint64_t n)
{
    uint64_t r = 409; for (int i = 7; i >= 0; --i) if (verif_primes[i] >= n) r = verif_primes[i];
    __CPROVER_assert(n <= 409, "modelling bound: hash table bucket count within the modelled prime list");
    p->f1 = r;      /* _M_next_resize = bucket count * max_load_factor (1.0) */
    return r;
}
struct L_f8559b49ee f__ZNKSt8__detail20_Prime_rehash_policy14_M_need_rehashEmmm(RP* p, uint64_t n_bkt, uint64_t n_elt, uint64_t n_ins)
{
    struct L_f8559b49ee r; r.f0 = 0; r.f1 = 0;
    if (n_elt + n_ins > p->f1) {
        uint64_t min_bkts = n_elt + n_ins;          /* max_load_factor 1.0 */
        if (min_bkts >= n_bkt) { r.f0 = 1; r.f1 = f__ZNKSt8__detail20_Prime_rehash_policy11_M_next_bktEm(p, (min_bkts + 1 > n_bkt * 2) ? min_bkts + 1 : n_bkt * 2); return r; }
        p->f1 = n_bkt;
    }
    return r;
}
