// C01 / C02: B+ tree containers vs ordered-container model (C01); invariants via verify() + allocation/lifetime accounting (C02)
#include "verif.hpp"
#include <functional>
#include <utility>
#include <memory>
#ifdef VERIFY
// C02: verify() reports through tlx_die_unless(), i.e. die_with_message() building a std::ostringstream message (libstdc++.so, not encodable, and one
// inlined copy per check site and verify_node instance). The macro is re-pointed at a failing assertion that carries the condition text; verify()'s
// own logic is the unmodified library code.  (die/core.hpp has an include guard, so btree.hpp keeps this definition.)
#include <tlx/die/core.hpp>
#undef tlx_die_unless
#define tlx_die_unless(X) do { if (!(X)) { CHECK(false, "verify(): " #X); } } while (false)
#endif
#include <tlx/container/btree_set.hpp>
#include <tlx/container/btree_multiset.hpp>
#include <tlx/container/btree_map.hpp>
#include <tlx/container/btree_multimap.hpp>
#ifndef CONT
#define CONT 0          // 0 set, 1 multiset, 2 map, 3 multimap
#endif
#ifndef LEAF
#define LEAF 4
#endif
#ifndef INNER
#define INNER 4
#endif
#ifndef BINSEARCH
#define BINSEARCH 0     // 0: linear in-node search, 1: binary
#endif
#ifndef PRE
#define PRE 1           // prefix script
#endif
#ifndef OPS
#define OPS 2
#endif
#ifndef GROUP
#define GROUP 0         // 0: insert/erase family, 1: copy/assign/swap/clear/bulk_load/compare
#endif
#ifndef MAXE
#if PRE == 3
#define MAXE (4 * LEAF + 6 + OPS + 1)
#elif PRE == 5
#define MAXE (2 * LEAF + OPS + 3)
#else
#define MAXE (12 + OPS)
#endif
#endif
#define KEYS 32
#ifndef BULKN
#ifdef BULKCNT
#define BULKN BULKCNT
#else
#define BULKN (LEAF + 2)   // bulk_load range length 0..BULKN (one full leaf plus a partial one)
#endif
#endif
enum { MULTI = (CONT == 1 || CONT == 3), ISMAP = (CONT >= 2) };

#ifdef VERIFY
// ---- C02: counting allocator (every node obtained is returned exactly once)
static long g_alloc_live = 0, g_alloc_total = 0;
template <typename T> struct CountAlloc {
    typedef T value_type; typedef size_t size_type; typedef ptrdiff_t difference_type;
    CountAlloc() {} template <typename U> CountAlloc(const CountAlloc<U>&) {}
    // noinline: the allocation keeps its element type in the IR (inlined into the node constructors it is only seen through header-field offsets)
    __attribute__((noinline)) T* allocate(size_t n) { g_alloc_live += 1; g_alloc_total += 1; return static_cast<T*>(::operator new(n * sizeof(T))); }
    void deallocate(T* p, size_t) { g_alloc_live -= 1; ::operator delete(p); }
    template <typename U> struct rebind { typedef CountAlloc<U> other; };
    bool operator==(const CountAlloc&) const { return true; } bool operator!=(const CountAlloc&) const { return false; }
};
#define ALLOC(T) CountAlloc<T>
#else
#define ALLOC(T) std::allocator<T>
#endif

#ifdef CMP_GREATER
typedef std::greater<uint8_t> KCmp;
#define KLT(a, b) ((a) > (b))
#else
typedef std::less<uint8_t> KCmp;
#define KLT(a, b) ((a) < (b))
#endif
template <typename K, typename V> struct Tr : tlx::btree_default_traits<K, V> {
    static const bool self_verify = false; static const bool debug = false;
    static const int leaf_slots = LEAF; static const int inner_slots = INNER;
    static const size_t binsearch_threshold = BINSEARCH ? 0 : 256;   // binary search is used when slots >= threshold
};
#if CONT == 0
typedef tlx::btree_set<uint8_t, KCmp, Tr<uint8_t, uint8_t>, ALLOC(uint8_t)> Tree;
#elif CONT == 1
typedef tlx::btree_multiset<uint8_t, KCmp, Tr<uint8_t, uint8_t>, ALLOC(uint8_t)> Tree;
#elif CONT == 2
typedef tlx::btree_map<uint8_t, uint8_t, KCmp, Tr<uint8_t, std::pair<uint8_t, uint8_t> >, ALLOC(uint8_t)> Tree;
#else
typedef tlx::btree_multimap<uint8_t, uint8_t, KCmp, Tr<uint8_t, std::pair<uint8_t, uint8_t> >, ALLOC(uint8_t)> Tree;
#endif

// ---- ordered (multi)set / (multi)map model: sorted array, new equivalent keys go after the existing ones (like std::multi*)
struct Model { uint8_t k[MAXE + 1], v[MAXE + 1]; unsigned n; };
static unsigned m_lower(const Model& m, uint8_t key) { unsigned i = 0; while (i < m.n && KLT(m.k[i], key)) ++i; return i; }
static unsigned m_upper(const Model& m, uint8_t key) { unsigned i = 0; while (i < m.n && !KLT(key, m.k[i])) ++i; return i; }
static unsigned m_count(const Model& m, uint8_t key) { return m_upper(m, key) - m_lower(m, key); }
static void m_insert_at(Model& m, unsigned p, uint8_t key, uint8_t val) { for (unsigned i = m.n; i > p; --i) { m.k[i] = m.k[i - 1]; m.v[i] = m.v[i - 1]; } m.k[p] = key; m.v[p] = val; m.n++; }
static void m_erase_range(Model& m, unsigned a, unsigned b) { unsigned d = b - a; for (unsigned i = a; i + d < m.n; ++i) { m.k[i] = m.k[i + d]; m.v[i] = m.v[i + d]; } m.n -= d; }

#if CONT >= 2
#define MKVAL(key, val) Tree::value_type((key), (val))
#define IT_KEY(it) ((it)->first)
#define IT_VAL(it) ((it)->second)
#else
#define MKVAL(key, val) (key)
#define IT_KEY(it) (*(it))
#define IT_VAL(it) (*(it))
#endif
static unsigned rank_of(Tree& t, Tree::iterator it) { unsigned r = 0; for (Tree::iterator i = t.begin(); i != it && r <= MAXE; ++i) ++r; return r; }

static void t_insert(Tree& t, Model& m, uint8_t key, uint8_t val)
{
    if (m.n >= MAXE) return;
    bool had = m_count(m, key) > 0;
#if CONT == 0 || CONT == 2
    std::pair<Tree::iterator, bool> r = t.insert(MKVAL(key, val));
    CHECK(r.second == !had, "insert reports whether the key was new (unique containers)");
    CHECK(r.first != t.end() && IT_KEY(r.first) == key, "insert returns an iterator to the element with the key");
    if (!had) m_insert_at(m, m_upper(m, key), key, val);
    else if (ISMAP) CHECK(IT_VAL(r.first) == m.v[m_lower(m, key)], "insert of an existing key leaves the stored value unchanged");
#else
    Tree::iterator r = t.insert(MKVAL(key, val));
    CHECK(r != t.end() && IT_KEY(r) == key, "insert returns an iterator to the inserted element");
    if (ISMAP) CHECK(IT_VAL(r) == val, "insert returns an iterator to the inserted value");
    m_insert_at(m, m_upper(m, key), key, val);
    (void)had;
#endif
}

static void compare_all(Tree& t, const Model& m, uint8_t probe)
{
    CHECK(t.size() == m.n && t.empty() == (m.n == 0), "size()/empty() equal the model");
    // forward iteration
    unsigned i = 0;
    for (Tree::iterator it = t.begin(); it != t.end(); ++it, ++i) {
        if (i >= MAXE) break;
        CHECK(i < m.n && IT_KEY(it) == m.k[i], "forward iteration yields the model's key sequence");
#if CONT == 2
        CHECK(i < m.n && IT_VAL(it) == m.v[i], "forward iteration yields the model's values");
#endif
    }
    CHECK(i == m.n, "forward iteration visits exactly size() entries");
    // reverse iteration
    unsigned j = m.n;
    for (Tree::reverse_iterator it = t.rbegin(); it != t.rend(); ++it) {
        if (j == 0) { CHECK(false, "reverse iteration visits more than size() entries"); break; }
        --j; CHECK(IT_KEY(it) == m.k[j], "reverse iteration yields the model's key sequence backwards");
    }
    CHECK(j == 0, "reverse iteration visits exactly size() entries");
#if CONT == 3
    // multimap: values compared as multisets per key (order among equivalent keys is unspecified)
    { unsigned ct = 0, cm = 0; uint8_t pv = m.n ? m.v[m_lower(m, probe)] : 0;
      for (Tree::iterator it = t.begin(); it != t.end(); ++it) if (IT_KEY(it) == probe && IT_VAL(it) == pv) ++ct;
      for (unsigned q = 0; q < m.n; ++q) if (m.k[q] == probe && m.v[q] == pv) ++cm;
      CHECK(ct == cm, "multimap: per-key multiset of values equals the model"); }
#endif
    // point queries with a symbolic probe key
    unsigned lo = m_lower(m, probe), up = m_upper(m, probe), cnt = up - lo;
    CHECK(t.exists(probe) == (cnt > 0), "exists() equals membership");
    CHECK(t.count(probe) == cnt, "count() equals the number of equivalent entries");
    Tree::iterator f = t.find(probe);
    CHECK((f == t.end()) == (cnt == 0), "find() returns end() exactly for absent keys");
    if (cnt > 0 && f != t.end()) { CHECK(IT_KEY(f) == probe, "find() returns an entry with the key"); }
    Tree::iterator lb = t.lower_bound(probe), ub = t.upper_bound(probe);
    // positions are pinned down locally: the element at the position and its predecessor (no O(n) walk)
    CHECK((lb == t.end()) == (lo == m.n), "lower_bound() is end() exactly when no entry is >= key");
    if (lb != t.end() && lo < m.n) CHECK(!KLT(IT_KEY(lb), probe) && IT_KEY(lb) == m.k[lo], "lower_bound() points to the first entry not less than key");
    if (lb != t.begin() && lo > 0) { Tree::iterator p_ = lb; --p_; CHECK(KLT(IT_KEY(p_), probe) && IT_KEY(p_) == m.k[lo - 1], "the entry before lower_bound() is less than key"); }
    CHECK((lb == t.begin()) == (lo == 0), "lower_bound() is begin() exactly when no entry is less than key");
    CHECK((ub == t.end()) == (up == m.n), "upper_bound() is end() exactly when no entry is > key");
    if (ub != t.end() && up < m.n) CHECK(KLT(probe, IT_KEY(ub)) && IT_KEY(ub) == m.k[up], "upper_bound() points to the first entry greater than key");
    if (ub != t.begin() && up > 0) { Tree::iterator p_ = ub; --p_; CHECK(!KLT(probe, IT_KEY(p_)) && IT_KEY(p_) == m.k[up - 1], "the entry before upper_bound() is not greater than key"); }
    CHECK((ub == t.begin()) == (up == 0), "upper_bound() is begin() exactly when no entry is <= key");
    { // the const overloads answer like the non-const ones
      const Tree& ct = t;
      CHECK(ct.find(probe) == Tree::const_iterator(f), "const find() equals find()");
      CHECK(ct.lower_bound(probe) == Tree::const_iterator(lb), "const lower_bound() equals lower_bound()");
      CHECK(ct.upper_bound(probe) == Tree::const_iterator(ub), "const upper_bound() equals upper_bound()");
      std::pair<Tree::const_iterator, Tree::const_iterator> cer = ct.equal_range(probe);
      CHECK(cer.first == Tree::const_iterator(lb) && cer.second == Tree::const_iterator(ub), "const equal_range() equals [lower_bound, upper_bound)"); }
    std::pair<Tree::iterator, Tree::iterator> er = t.equal_range(probe);
    CHECK(er.first == lb && er.second == ub, "equal_range() equals [lower_bound, upper_bound)");
}

static void p_ins(Tree& t, Model& m, uint8_t key, uint8_t val)   // concrete prefix insert: model updated like std::(multi)set/map
{
    if (!MULTI && m_count(m, key) > 0) { t.insert(MKVAL(key, val)); return; }
    t.insert(MKVAL(key, val)); m_insert_at(m, m_upper(m, key), key, val);
}
static void p_erase(Tree& t, Model& m, uint8_t key) { unsigned a = m_lower(m, key), b = m_upper(m, key); t.erase(key); m_erase_range(m, a, b); }
static void prefix(Tree& t, Model& m)
{
#if PRE == 0
    (void)t; (void)m;
#elif PRE == 1      // two levels: six ascending keys
    for (unsigned i = 0; i < 6; ++i) p_ins(t, m, (uint8_t)(4 * i + 2), (uint8_t)i);
#elif PRE == 2      // leaves at minimum fill after erasures
    for (unsigned i = 0; i < 8; ++i) p_ins(t, m, (uint8_t)(4 * i + 2), (uint8_t)i);
    p_erase(t, m, 6); p_erase(t, m, 22);
#elif PRE == 3      // three levels: ascending inserts until the root has been split twice
    for (unsigned i = 0; i < 4 * LEAF + 6; ++i) p_ins(t, m, (uint8_t)(i + 2), (uint8_t)i);
#elif PRE == 4      // descending inserts (splits on the left edge)
    for (unsigned i = 0; i < 9; ++i) p_ins(t, m, (uint8_t)(30 - 3 * i), (uint8_t)i);
#elif PRE == 5      // bulk-loaded tree at an exact multiple of the leaf capacity
    { Tree::value_type a[2 * LEAF]; for (unsigned i = 0; i < 2 * LEAF; ++i) { uint8_t kk = (uint8_t)(KLT(1, 2) ? 3 * i + 1 : 30 - 3 * i); a[i] = MKVAL(kk, (uint8_t)i); m_insert_at(m, m.n, kk, (uint8_t)i); }
      t.bulk_load(a, a + 2 * LEAF); }
#elif PRE == 6      // duplicate run spanning at least two leaves (multi containers); unique containers get distinct keys
    for (unsigned i = 0; i < LEAF + 3; ++i) p_ins(t, m, (uint8_t)(MULTI ? 10 : 10 + i), (uint8_t)i);
    p_ins(t, m, 4, 100); p_ins(t, m, 20, 101);
#elif PRE == 9      // a minimum-fill leaf between a full left sibling and a three-entry right sibling under one parent: [10 11 21 25][28 29][30 37 38]
    { static const uint8_t ks[9] = {25, 30, 21, 29, 38, 10, 28, 37, 11}; for (unsigned i = 0; i < 9; ++i) p_ins(t, m, (uint8_t)(ks[i] - 8), (uint8_t)i); }
#elif PRE == 8      // a single entry: the root is a leaf that the next erase empties
    p_ins(t, m, 12, 7);
#elif PRE == 7      // short duplicate run (three equivalent keys) that crosses a leaf boundary
    { static const uint8_t ks[7] = {9, 10, 10, 12, 10, 11, 4};   // multiset: leaves [4 9 10 10][10 11 12]
      for (unsigned i = 0; i < 7; ++i) p_ins(t, m, ks[i], (uint8_t)i); }
#endif
}

HARNESS(h_btree)
{
    Tree* tp = new Tree(); Tree& t = *tp;
    Model m; m.n = 0;
    prefix(t, m);
#if defined(VERIFY) && defined(VERIF_NATIVE)
    t.verify();      // native builds (replay) also check the concrete prefix state; the symbolic run calls verify() after every symbolic step, and verify() inspects the whole tree
#endif
    for (unsigned step = 0; step < OPS; ++step) {
        uint8_t key = (uint8_t)nondet_below(KEYS), val = nondet_u8();
#if GROUP == 0
#ifdef OPK
        unsigned op = OPK; OBS(key);       // one operation kind per query (the kinds are enumerated by the spec)
#else
        unsigned op = nondet_below(4); OBS(op * 32 + key);
#endif
        switch (op) {
        case 0: t_insert(*tp, m, key, val); break;
        case 1: { unsigned a = m_lower(m, key), b = m_upper(m, key); size_t r = (*tp).erase(key); CHECK(r == b - a, "erase(key) returns the number of removed entries"); m_erase_range(m, a, b); } break;
        case 2: { unsigned a = m_lower(m, key), b = m_upper(m, key); bool r = (*tp).erase_one(key); CHECK(r == (b > a), "erase_one(key) reports whether an entry was removed");
                  if (b > a) {
#if CONT == 3
                      // which of the equivalent entries goes is unspecified: find the value that disappeared
                      unsigned gone = a; for (unsigned q = a; q < b; ++q) { unsigned ct = 0, cm = 0; for (Tree::iterator it = (*tp).begin(); it != (*tp).end(); ++it) if (IT_KEY(it) == key && IT_VAL(it) == m.v[q]) ++ct;
                          for (unsigned z = a; z < b; ++z) if (m.v[z] == m.v[q]) ++cm; if (ct + 1 == cm) gone = q; }
                      m_erase_range(m, gone, gone + 1);
#else
                      m_erase_range(m, a, a + 1);
#endif
                  } } break;
        default: { Tree::iterator it = (*tp).lower_bound(key); unsigned p = m_lower(m, key); if (it != (*tp).end()) { CHECK(p < m.n, "lower_bound below end"); (*tp).erase(it); if (p < m.n) m_erase_range(m, p, p + 1); } else CHECK(p == m.n, "lower_bound == end() exactly when no entry is >= key"); } break;
        }
#else
#ifdef OPK
        unsigned op = OPK; OBS(key);
#else
        unsigned op = nondet_below(6); OBS(op * 32 + key);
#endif
        switch (op) {
        case 0: { Tree* c = new Tree(*tp); CHECK(*c == *tp && !(*c != *tp) && !(*c < *tp) && *c <= *tp && *c >= *tp, "a copy compares equal to the original"); compare_all(*c, m, key); delete tp; tp = c; } break;
        case 1: { Tree* c = new Tree(); c->insert(MKVAL(key, val)); *c = *tp; CHECK(*c == *tp, "assignment makes the trees equal"); compare_all(*c, m, key); delete c; } break;
        case 2: { Tree* c = new Tree(); c->insert(MKVAL(key, val)); c->swap(*tp); CHECK(tp->size() == 1 && c->size() == m.n, "swap exchanges the contents"); tp->swap(*c); delete c; } break;
        case 3: tp->clear(); m.n = 0; break;
        case 4: { tp->clear(); m.n = 0; 
#ifdef BULKCNT
                  unsigned cnt = BULKCNT;          // range length enumerated by the spec (a symbolic length makes the number of allocated nodes symbolic: measured memory-out)
#else
                  unsigned cnt = nondet_below(BULKN + 1);
#endif
                  Tree::value_type a[BULKN + 1]; uint8_t last = 0;
                  for (unsigned i = 0; i < BULKN; ++i) if (i < cnt) { uint8_t d = (uint8_t)nondet_below(3); if (!MULTI && i > 0) d = (uint8_t)(d + 1);
#ifdef CMP_GREATER
                      uint8_t kk = (uint8_t)(i == 0 ? 200 - d : last - d);
#else
                      uint8_t kk = (uint8_t)(i == 0 ? d : last + d);
#endif
                      last = kk; a[i] = MKVAL(kk, (uint8_t)i); m_insert_at(m, m.n, kk, (uint8_t)i); }
                  tp->bulk_load(a, a + cnt); } break;
        default: { Tree* c = new Tree(*tp); t_insert(*c, m, key, val); bool lt = *tp < *c, gt = *tp > *c, eq = *tp == *c;
                   CHECK((lt ? 1 : 0) + (gt ? 1 : 0) + (eq ? 1 : 0) == 1, "exactly one of <, ==, > holds between two trees"); delete tp; tp = c; } break;
        }
#endif
#ifdef VERIFY
        tp->verify();    // C02: the tree's self-check after every mutating operation (die_unless -> failing assertion)
#endif
#ifdef COMPARE_EACH_STEP
        compare_all(*tp, m, key);
#endif
    }
    compare_all(*tp, m, (uint8_t)nondet_below(KEYS));
    REACH("btree history done");
    delete tp;
#ifdef VERIFY
    CHECK(g_alloc_live == 0, "every node obtained from the allocator is returned exactly once");
#endif
}
