// Harness conventions shared by all /verif/harness/*.cpp (see DESIGN.md §3).
// The same source is (a) lowered by clang to IR -> ll2c -> C -> CBMC and (b) built natively with g++
// against /repo for counterexample replay and translator validation.
#pragma once
#include <cstdint>
#include <cstddef>
extern "C" {
uint8_t nondet_u8();
uint16_t nondet_u16();
uint32_t nondet_u32();
uint64_t nondet_u64();
void __CPROVER_assume(bool);
void __CPROVER_assert(bool, const char*);
void verif_observe(uint64_t);   // observable value: hashed in native/gcc builds, no-op for CBMC
}
#define ASSUME(c) __CPROVER_assume(c)
#ifdef WITNESS
// witness twin: real assertions are dropped, every REACH point must be reported reachable (FAILURE)
#define CHECK(c, msg) ((void)(c))
#define REACH(msg) __CPROVER_assert(false, "witness: " msg)
#else
#define CHECK(c, msg) __CPROVER_assert((c), msg)
#define REACH(msg) ((void)0)
#endif
#define OBS(v) verif_observe((uint64_t)(v))
#define HARNESS(name) extern "C" void name()
static inline bool nondet_bool() { return (nondet_u8() & 1) != 0; }
// value in [0, n) (n >= 1)
static inline uint32_t nondet_below(uint32_t n) { uint32_t v = nondet_u32(); ASSUME(v < n); return v; }
