// C20: integer math helpers == mathematical definition on the whole domain (DESIGN.md §4 C20)
#include "verif.hpp"
#include <type_traits>
#include <tlx/math/clz.hpp>
#include <tlx/math/ctz.hpp>
#include <tlx/math/ffs.hpp>
#include <tlx/math/popcount.hpp>
#include <tlx/math/integer_log2.hpp>
#include <tlx/math/is_power_of_two.hpp>
#include <tlx/math/round_to_power_of_two.hpp>
#include <tlx/math/bswap.hpp>
#include <tlx/math/rol.hpp>
#include <tlx/math/ror.hpp>
#include <tlx/math/div_ceil.hpp>
#include <tlx/math/round_up.hpp>
#include <tlx/math/abs_diff.hpp>
#include <tlx/math/sgn.hpp>
extern "C" {
uint32_t verif_ref_clz(uint64_t x, uint32_t bits);
uint32_t verif_ref_ctz(uint64_t x, uint32_t bits);
uint32_t verif_ref_popcount(uint64_t x, uint32_t bits);
uint32_t verif_ref_log2floor(uint64_t x, uint32_t bits);
uint32_t verif_ref_log2ceil(uint64_t x, uint32_t bits);
uint64_t verif_ref_bswap(uint64_t x, uint32_t bytes);
uint64_t verif_ref_rol(uint64_t x, uint32_t bits, uint32_t c);
uint64_t verif_ref_pow2_ge(uint64_t x, uint32_t bits);
uint64_t verif_ref_pow2_le(uint64_t x, uint32_t bits);
}
template <typename T> static inline uint64_t U(T x) { return (uint64_t)(typename std::make_unsigned<T>::type)x; }
template <typename T> constexpr unsigned B() { return 8 * sizeof(T); }

// ---------------------------------------------------------------- clz / ctz / ffs
template <typename T> static void chk_clz(T x) {
    unsigned ref = verif_ref_clz(U(x), B<T>());
    CHECK(tlx::clz(x) == ref, "clz == number of leading zero bits");
    CHECK(tlx::clz_template(x) == ref, "clz_template == number of leading zero bits");
}
template <typename T> static void chk_ctz(T x) {
    unsigned ref = verif_ref_ctz(U(x), B<T>());
    CHECK(tlx::ctz(x) == ref, "ctz == number of trailing zero bits");
    CHECK(tlx::ctz_template(x) == ref, "ctz_template == number of trailing zero bits");
}
template <typename T> static void chk_ffs(T x) {
    unsigned ref = x == 0 ? 0 : 1 + verif_ref_ctz(U(x), B<T>());
    CHECK(tlx::ffs(x) == ref, "ffs == 1 + index of lowest set bit (0 if none)");
    CHECK(tlx::ffs_template(x) == ref, "ffs_template == 1 + index of lowest set bit (0 if none)");
}
HARNESS(h_clz32) { uint32_t v = nondet_u32(); chk_clz<unsigned>(v); chk_clz<int>((int)v); REACH("clz32"); }
HARNESS(h_clz64) { uint64_t v = nondet_u64(); chk_clz<unsigned long>(v); chk_clz<long>((long)v); chk_clz<unsigned long long>(v); chk_clz<long long>((long long)v); REACH("clz64"); }
HARNESS(h_clz_small) {
    uint8_t a = nondet_u8(); uint16_t b = nondet_u16();
    CHECK(tlx::clz_template(a) == verif_ref_clz(a, 8), "clz_template<uint8_t>");
    CHECK(tlx::clz_template(b) == verif_ref_clz(b, 16), "clz_template<uint16_t>");
    CHECK(tlx::ctz_template(a) == verif_ref_ctz(a, 8), "ctz_template<uint8_t>");
    CHECK(tlx::ctz_template(b) == verif_ref_ctz(b, 16), "ctz_template<uint16_t>");
    CHECK(tlx::ffs_template(a) == (a == 0 ? 0 : 1 + verif_ref_ctz(a, 8)), "ffs_template<uint8_t>");
    CHECK(tlx::ffs_template(b) == (b == 0 ? 0 : 1 + verif_ref_ctz(b, 16)), "ffs_template<uint16_t>");
    REACH("clz small");
}
HARNESS(h_ctz32) { uint32_t v = nondet_u32(); chk_ctz<unsigned>(v); chk_ctz<int>((int)v); REACH("ctz32"); }
HARNESS(h_ctz64) { uint64_t v = nondet_u64(); chk_ctz<unsigned long>(v); chk_ctz<long>((long)v); chk_ctz<unsigned long long>(v); chk_ctz<long long>((long long)v); REACH("ctz64"); }
HARNESS(h_ffs32) { uint32_t v = nondet_u32(); chk_ffs<unsigned>(v); chk_ffs<int>((int)v); REACH("ffs32"); }
HARNESS(h_ffs64) { uint64_t v = nondet_u64(); chk_ffs<unsigned long>(v); chk_ffs<long>((long)v); chk_ffs<unsigned long long>(v); chk_ffs<long long>((long long)v); REACH("ffs64"); }

// ---------------------------------------------------------------- popcount
HARNESS(h_popcount32) {
    uint32_t v = nondet_u32(); unsigned ref = verif_ref_popcount(v, 32);
    CHECK(tlx::popcount((unsigned)v) == ref, "popcount(unsigned)");
    CHECK(tlx::popcount((int)v) == ref, "popcount(int)");
    CHECK(tlx::popcount_generic32(v) == ref, "popcount_generic32 == number of one bits");
    REACH("popcount32");
}
HARNESS(h_popcount_small) {
    uint8_t a = nondet_u8(); uint16_t b = nondet_u16();
    CHECK(tlx::popcount_generic8(a) == verif_ref_popcount(a, 8), "popcount_generic8 == number of one bits");
    CHECK(tlx::popcount_generic16(b) == verif_ref_popcount(b, 16), "popcount_generic16 == number of one bits");
    CHECK(tlx::popcount(a) == verif_ref_popcount(a, 8), "popcount(uint8_t)");
    CHECK(tlx::popcount(b) == verif_ref_popcount(b, 16), "popcount(uint16_t)");
    REACH("popcount small");
}
HARNESS(h_popcount64) {
    uint64_t v = nondet_u64(); unsigned ref = verif_ref_popcount(v, 64);
    CHECK(tlx::popcount((unsigned long)v) == ref, "popcount(unsigned long)");
    CHECK(tlx::popcount((long)v) == ref, "popcount(long)");
    CHECK(tlx::popcount((unsigned long long)v) == ref, "popcount(unsigned long long)");
    CHECK(tlx::popcount((long long)v) == ref, "popcount(long long)");
    REACH("popcount64");
}
HARNESS(h_popcount_generic64) {
    uint64_t v = nondet_u64();
    CHECK(tlx::popcount_generic64(v) == verif_ref_popcount(v, 64), "popcount_generic64 == number of one bits");
    REACH("popcount_generic64");
}
#ifndef PCR_MAX
#define PCR_MAX 9
#endif
HARNESS(h_popcount_range) {   // popcount(const void*, size): sizes enumerated, bytes symbolic
    alignas(8) uint8_t buf[PCR_MAX + 3];
    for (unsigned i = 0; i < PCR_MAX; ++i) buf[i] = nondet_u8();
    for (unsigned n = 0; n <= PCR_MAX; ++n) {
        unsigned ref = 0;
        for (unsigned i = 0; i < n; ++i) ref += verif_ref_popcount(buf[i], 8);
        CHECK(tlx::popcount(buf, n) == ref, "popcount(range) == sum of one bits of the bytes");
    }
    REACH("popcount range");
}

// ---------------------------------------------------------------- integer_log2
template <typename T> static void chk_log2(T x) {
    if (x <= 0) return;   // log2 undefined for x <= 0: excluded (documented in evidence)
    unsigned fl = verif_ref_log2floor(U(x), B<T>());
    CHECK(tlx::integer_log2_floor(x) == fl, "integer_log2_floor == floor(log2 x) for x > 0");
    CHECK(tlx::integer_log2_floor_template(x) == fl, "integer_log2_floor_template == floor(log2 x) for x > 0");
    CHECK(tlx::integer_log2_ceil(x) == verif_ref_log2ceil(U(x), B<T>()), "integer_log2_ceil == ceil(log2 x) for x >= 1");
}
HARNESS(h_log2_32) { uint32_t v = nondet_u32(); chk_log2<unsigned>(v); chk_log2<int>((int)v); REACH("log2 32"); }
HARNESS(h_log2_64) { uint64_t v = nondet_u64(); chk_log2<unsigned long>(v); chk_log2<long>((long)v); chk_log2<unsigned long long>(v); chk_log2<long long>((long long)v); REACH("log2 64"); }
HARNESS(h_log2_small) {
    uint8_t a = nondet_u8(); uint16_t b = nondet_u16();
    if (a > 0) CHECK(tlx::integer_log2_floor_template(a) == verif_ref_log2floor(a, 8), "integer_log2_floor_template<uint8_t>");
    if (b > 0) CHECK(tlx::integer_log2_floor_template(b) == verif_ref_log2floor(b, 16), "integer_log2_floor_template<uint16_t>");
    REACH("log2 small");
}

// ---------------------------------------------------------------- power of two
template <typename T> static void chk_pow2(T x) {
    bool ref = x > 0 && verif_ref_popcount(U(x), B<T>()) == 1;
    CHECK(tlx::is_power_of_two(x) == ref, "is_power_of_two == (x > 0 and exactly one bit set)");
    if (x >= 1) {
        const unsigned vb = std::is_signed<T>::value ? B<T>() - 1 : B<T>();   // value bits
        uint64_t up = verif_ref_pow2_ge(U(x), vb);
        if (up != 0)   // representable in T
            CHECK(U(tlx::round_up_to_power_of_two(x)) == up, "round_up_to_power_of_two == smallest power of two >= x (when representable)");
        uint64_t dn = verif_ref_pow2_le(U(x), vb);
#ifdef KF_ROUND_DOWN_TOP
        if (up != 0)
#endif
        CHECK(U(tlx::round_down_to_power_of_two(x)) == dn, "round_down_to_power_of_two == largest power of two <= x");
    }
}
HARNESS(h_pow2_32) { uint32_t v = nondet_u32(); chk_pow2<unsigned>(v); chk_pow2<int>((int)v); REACH("pow2 32"); }
HARNESS(h_pow2_64) { uint64_t v = nondet_u64(); chk_pow2<unsigned long>(v); chk_pow2<long>((long)v); chk_pow2<unsigned long long>(v); chk_pow2<long long>((long long)v); REACH("pow2 64"); }

// ---------------------------------------------------------------- bswap / rol / ror
HARNESS(h_bswap) {
    uint16_t a = nondet_u16(); uint32_t b = nondet_u32(); uint64_t c = nondet_u64();
    CHECK(tlx::bswap16(a) == verif_ref_bswap(a, 2), "bswap16 == byte reversal");
    CHECK(tlx::bswap16_generic(a) == verif_ref_bswap(a, 2), "bswap16_generic == byte reversal");
    CHECK(tlx::bswap32(b) == verif_ref_bswap(b, 4), "bswap32 == byte reversal");
    CHECK(tlx::bswap32_generic(b) == verif_ref_bswap(b, 4), "bswap32_generic == byte reversal");
    CHECK(tlx::bswap64(c) == verif_ref_bswap(c, 8), "bswap64 == byte reversal");
    CHECK(tlx::bswap64_generic(c) == verif_ref_bswap(c, 8), "bswap64_generic == byte reversal");
    REACH("bswap");
}
HARNESS(h_rot32) {
    uint32_t x = nondet_u32(); int i = (int)nondet_u32();   // every shift count, also negative and >= 32
    uint32_t c = (uint32_t)i & 31;
    CHECK(tlx::rol32(x, i) == verif_ref_rol(x, 32, c), "rol32 == rotate left by i mod 32");
    CHECK(tlx::rol32_generic(x, i) == verif_ref_rol(x, 32, c), "rol32_generic == rotate left by i mod 32");
    CHECK(tlx::ror32(x, i) == verif_ref_rol(x, 32, (32 - c) & 31), "ror32 == rotate right by i mod 32");
    CHECK(tlx::ror32_generic(x, i) == verif_ref_rol(x, 32, (32 - c) & 31), "ror32_generic == rotate right by i mod 32");
    REACH("rot32");
}
HARNESS(h_rot64) {
    uint64_t x = nondet_u64(); int i = (int)nondet_u32();
    uint32_t c = (uint32_t)i & 63;
    CHECK(tlx::rol64(x, i) == verif_ref_rol(x, 64, c), "rol64 == rotate left by i mod 64");
    CHECK(tlx::rol64_generic(x, i) == verif_ref_rol(x, 64, c), "rol64_generic == rotate left by i mod 64");
    CHECK(tlx::ror64(x, i) == verif_ref_rol(x, 64, (64 - c) & 63), "ror64 == rotate right by i mod 64");
    CHECK(tlx::ror64_generic(x, i) == verif_ref_rol(x, 64, (64 - c) & 63), "ror64_generic == rotate right by i mod 64");
    REACH("rot64");
}

// ---------------------------------------------------------------- div_ceil / round_up / abs_diff / sgn
// ceil(n/k) for k > 0 is the unique q with (q-1)*k < n <= q*k; stated with / and % of the same operands.
template <typename T, typename W> static void chk_divceil(T n, T k) {
    if (k == 0) return;
    if (std::is_signed<T>::value && (n < 0 || k < 0)) return;   // documented: "for n and k positive"
    W wn = (W)n, wk = (W)k;
    W maxv = (W)(typename std::make_unsigned<decltype(n + k)>::type)(~(typename std::make_unsigned<decltype(n + k)>::type)0 >> (std::is_signed<decltype(n + k)>::value ? 1 : 0));
    if (wn + wk - 1 > maxv) return;   // n + k - 1 not representable in the result type: outside "whenever representable"
    W q = wn / wk + (wn % wk != 0 ? 1 : 0);
    CHECK((W)tlx::div_ceil(n, k) == q, "div_ceil == ceil(n / k)");
    CHECK((W)tlx::round_up(n, k) == q * wk, "round_up == smallest multiple of k that is >= n");
}
HARNESS(h_divceil_small) {
    uint8_t a = nondet_u8(), b = nondet_u8(); chk_divceil<uint8_t, uint32_t>(a, b);
    REACH("divceil small");
}
HARNESS(h_divceil32) {
    uint32_t a = nondet_u32(), b = nondet_u32();
#ifdef DIVCEIL_KMAX
    ASSUME(b <= DIVCEIL_KMAX);
#endif
    chk_divceil<unsigned, uint64_t>(a, b); chk_divceil<int, uint64_t>((int)a, (int)b);
    REACH("divceil32");
}
HARNESS(h_absdiff_sgn) {
    uint32_t a = nondet_u32(), b = nondet_u32(); uint64_t c = nondet_u64(), d = nondet_u64(); uint8_t e = nondet_u8(), f = nondet_u8();
    CHECK(tlx::abs_diff<unsigned>(a, b) == (a >= b ? a - b : b - a), "abs_diff<unsigned> == |a - b|");
    CHECK(tlx::abs_diff<uint64_t>(c, d) == (c >= d ? c - d : d - c), "abs_diff<uint64_t> == |a - b|");
    CHECK(tlx::abs_diff<uint8_t>(e, f) == (e >= f ? e - f : f - e), "abs_diff<uint8_t> == |a - b|");
    int64_t wa = (int32_t)a, wb = (int32_t)b; int64_t wd = wa >= wb ? wa - wb : wb - wa;
    if (wd <= 0x7fffffffLL) CHECK((int64_t)tlx::abs_diff<int>((int)a, (int)b) == wd, "abs_diff<int> == |a - b| when representable");
    CHECK(tlx::sgn<int>((int)a) == ((int)a > 0 ? 1 : ((int)a < 0 ? -1 : 0)), "sgn<int>");
    CHECK(tlx::sgn<long long>((long long)c) == ((long long)c > 0 ? 1 : ((long long)c < 0 ? -1 : 0)), "sgn<long long>");
    CHECK(tlx::sgn<int8_t>((int8_t)e) == ((int8_t)e > 0 ? 1 : ((int8_t)e < 0 ? -1 : 0)), "sgn<int8_t>");
    CHECK(tlx::sgn<unsigned>(a) == (a > 0 ? 1 : 0), "sgn<unsigned>");
    REACH("absdiff sgn");
}
