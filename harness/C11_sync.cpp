// C11: Semaphore conserves tokens and strands no waiter; barriers release together (DESIGN.md §4 C11)
// Built with -include engine/rt/shim_std.hpp: std::mutex / condition_variable / thread inside namespace tlx resolve to scheduler shims;
// ll2c --conc turns every thread into a resumable step function and sched.c explores the schedules symbolically.
#include "verif.hpp"
#include <tlx/semaphore.hpp>
#include <tlx/thread_barrier_mutex.hpp>
#include <tlx/thread_barrier_spin.hpp>
#ifndef NTHR
#define NTHR 2          // worker threads (the harness main thread only spawns and joins)
#endif
#ifndef NCALLS
#define NCALLS 2
#endif
extern "C" bool verif_is_blocked(uint32_t t);
// ================================================================ Semaphore
#ifdef SEMAPHORE
enum { K_SIGNAL1 = 0, K_SIGNALN, K_WAIT, K_TRY };
static tlx::Semaphore* sem;
static uint8_t kind[NTHR + 1][NCALLS], delta[NTHR + 1][NCALLS], slack[NTHR + 1][NCALLS];
static size_t g_init, g_signalled, g_acquired;
static int waiting_need[NTHR + 1];      // > 0 while the thread is inside wait(): tokens (delta + slack) it needs to proceed
static void conserve() { CHECK(g_acquired <= g_init + g_signalled, "never hands out more tokens than initial value plus signalled"); CHECK(sem->value() == g_init + g_signalled - g_acquired, "value() equals initial + signalled - acquired"); }
static void body(void* p)
{
    unsigned id = (unsigned)(uintptr_t)p;
    for (unsigned c = 0; c < NCALLS; ++c) {
        size_t d = delta[id][c], s = slack[id][c];
        switch (kind[id][c]) {
        case K_SIGNAL1: sem->signal(); g_signalled += 1; break;
        case K_SIGNALN: sem->signal(d); g_signalled += d; break;
        case K_WAIT: { waiting_need[id] = (int)(d + s); size_t r = sem->wait(d, s); waiting_need[id] = 0; g_acquired += d;
                       CHECK(r >= s, "wait(delta, slack) returns only when the value was at least delta + slack"); } break;
        default: { bool ok = sem->try_acquire(d, s); if (ok) g_acquired += d; } break;
        }
        conserve();
    }
}
extern "C" void verif_on_quiescence()
{   // threads came to rest with somebody blocked: legitimate only if the current value does not cover the waiter's request
    for (unsigned t = 1; t <= NTHR; ++t)
        if (verif_is_blocked(t)) CHECK(waiting_need[t] > 0 && sem->value() < (size_t)waiting_need[t], "no waiter stays blocked although the current value covers its request");
}
HARNESS(h_semaphore)
{
    g_init = nondet_below(3); sem = new tlx::Semaphore(g_init);
    for (unsigned t = 1; t <= NTHR; ++t) for (unsigned c = 0; c < NCALLS; ++c) {
        kind[t][c] = (uint8_t)nondet_below(4); delta[t][c] = (uint8_t)(1 + nondet_below(2)); slack[t][c] = (uint8_t)nondet_below(2);
#ifdef KF_MIXED_DELTAS
        ASSUME(delta[t][c] == 1 && slack[t][c] == 0);
#endif
    }
    unsigned ids[NTHR + 1];
    for (unsigned t = 1; t <= NTHR; ++t) ids[t] = verif_thread_spawn(body, (void*)(uintptr_t)t);
    for (unsigned t = 1; t <= NTHR; ++t) verif_thread_join(ids[t]);
    conserve();
    REACH("semaphore run complete");
}
#endif
// ================================================================ barriers
#ifdef BARRIER
#ifndef GENS
#define GENS 2
#endif
#if BARRIER == 1
typedef tlx::ThreadBarrierMutex Barrier;
#else
typedef tlx::ThreadBarrierSpin Barrier;
#endif
static Barrier* bar;
#if BARRIER == 2
#include <atomic>
// the action is made a visible operation (an atomic access = a scheduling point of the engine), so that an interleaving in which
// spinning threads are released while the last arriver is still about to run the action is explored
static std::atomic<unsigned> action_mark;
#define ACTION_VISIBLE() action_mark.fetch_add(1, std::memory_order_relaxed)
#else
#define ACTION_VISIBLE() ((void)0)
#endif
static unsigned entered[GENS], left_[GENS], action_runs[GENS], action_when_entered[GENS], action_when_left[GENS];
static void bbody(void* p)
{
    (void)p;
    for (unsigned g = 0; g < GENS; ++g) {
        entered[g]++;
        bar->wait([g]() { ACTION_VISIBLE(); action_runs[g]++; action_when_entered[g] = entered[g]; action_when_left[g] = left_[g]; });
        CHECK(entered[g] == NTHR, "no thread leaves generation g before all participants have entered it");
        CHECK(action_runs[g] == 1, "the action has run exactly once before anyone is released");
        left_[g]++;
    }
}
extern "C" void verif_on_quiescence() { CHECK(false, "barrier: threads came to rest blocked (deadlock / lost wake-up)"); }
HARNESS(h_barrier)
{
    bar = new Barrier(NTHR);
    unsigned ids[NTHR + 1];
    for (unsigned t = 1; t <= NTHR; ++t) ids[t] = verif_thread_spawn(bbody, (void*)(uintptr_t)t);
    for (unsigned t = 1; t <= NTHR; ++t) verif_thread_join(ids[t]);
    for (unsigned g = 0; g < GENS; ++g) {
        CHECK(action_runs[g] == 1, "the action runs exactly once per generation");
        CHECK(action_when_entered[g] == NTHR && action_when_left[g] == 0, "the action is run by the last arriver, before anyone is released");
        CHECK(left_[g] == NTHR, "every participant passes every generation (the barrier is reusable)");
    }
    REACH("barrier run complete");
}
#endif
