// C17 (part 2): LruCacheSet / LruCacheMap evict in true LRU order (DESIGN.md §4 C17)
#include "verif.hpp"
#include <stdexcept>
#include <tlx/container/lru_cache.hpp>
#ifndef H
#define H 3
#endif
#ifndef MAPMODE
#define MAPMODE 0
#endif
#define NKEY 3
#if MAPMODE
typedef tlx::LruCacheMap<uint8_t, uint8_t> Cache;
#else
typedef tlx::LruCacheSet<uint8_t> Cache;
#endif
// reference recency list: index 0 = most recently put/touched
struct Ref { uint8_t k[NKEY + 1], v[NKEY + 1]; unsigned n; };
static int r_find(const Ref& r, uint8_t k) { for (unsigned i = 0; i < NKEY; ++i) if (i < r.n && r.k[i] == k) return (int)i; return -1; }
static void r_erase(Ref& r, unsigned p) { for (unsigned i = p; i + 1 < NKEY + 1; ++i) if (i + 1 < r.n) { r.k[i] = r.k[i + 1]; r.v[i] = r.v[i + 1]; } r.n--; }
static void r_front(Ref& r, uint8_t k, uint8_t v) { for (unsigned i = r.n; i > 0; --i) { r.k[i] = r.k[i - 1]; r.v[i] = r.v[i - 1]; } r.k[0] = k; r.v[0] = v; r.n++; }
template <typename F> static int run(F f) { try { f(); return 0; } catch (const std::range_error&) { return 1; } catch (...) { return 2; } }

HARNESS(h_lru)
{
    Cache* c = new Cache(); Ref r; r.n = 0;
    for (unsigned step = 0; step < H; ++step) {
        unsigned op = nondet_below(8); uint8_t k = (uint8_t)nondet_below(NKEY), v = nondet_u8(); OBS(op * 4 + k);
        int p = r_find(r, k);
        switch (op) {
        case 0: case 1:
#if MAPMODE
            c->put(k, v);
#else
            c->put(k);
#endif
            if (p >= 0) r_erase(r, (unsigned)p); r_front(r, k, v); break;
        case 2: { int e = run([&] { c->touch(k); }); CHECK(e == (p < 0 ? 1 : 0), "touch throws range_error exactly for absent keys"); if (p >= 0) { uint8_t ov = r.v[p]; r_erase(r, (unsigned)p); r_front(r, k, ov); } } break;
        case 3: { bool b = c->touch_if_exists(k); CHECK(b == (p >= 0), "touch_if_exists reports presence"); if (p >= 0) { uint8_t ov = r.v[p]; r_erase(r, (unsigned)p); r_front(r, k, ov); } } break;
        case 4: { int e = run([&] { c->erase(k); }); CHECK(e == (p < 0 ? 1 : 0), "erase throws range_error exactly for absent keys"); if (p >= 0) r_erase(r, (unsigned)p); } break;
        case 5: { bool b = c->erase_if_exists(k); CHECK(b == (p >= 0), "erase_if_exists reports presence"); if (p >= 0) r_erase(r, (unsigned)p); } break;
        case 6: if (r.n > 0) {
#if MAPMODE
            std::pair<uint8_t, uint8_t> o = c->pop(); CHECK(o.first == r.k[r.n - 1] && o.second == r.v[r.n - 1], "pop removes the least recently put or touched entry (key and latest value)");
#else
            uint8_t o = c->pop(); CHECK(o == r.k[r.n - 1], "pop removes the key least recently put or touched");
#endif
            r.n--; } break;
        default: c->clear(); r.n = 0; break;
        }
        CHECK(c->size() == r.n, "size() equals the reference LRU list");
        for (uint8_t q = 0; q < NKEY; ++q) CHECK(c->exists(q) == (r_find(r, q) >= 0), "exists() equals membership in the reference list");
#if MAPMODE
        { int pq = r_find(r, k); uint8_t got = 0; int e = run([&] { got = c->get(k); }); CHECK(e == (pq < 0 ? 1 : 0), "get throws range_error exactly for absent keys"); if (pq >= 0) CHECK(got == r.v[pq], "get returns the latest value"); }
#endif
    }
    REACH("lru history done");
    delete c;
}
