// C15: the three sorting-network families sort every input of up to 16 elements (DESIGN.md §4 C15)
#include "verif.hpp"
#include <utility>
#include <tlx/sort/networks/best.hpp>
#include <tlx/sort/networks/bose_nelson.hpp>
#include <tlx/sort/networks/bose_nelson_parameter.hpp>
#ifndef KEYMASK
#define KEYMASK 1
#endif
#ifndef NMIN
#define NMIN 0
#endif
#ifndef NMAX
#define NMAX 16
#endif
struct E { uint8_t key; uint8_t id; };
struct Less { bool operator()(const E& a, const E& b) const { return a.key < b.key; } };
struct Greater { bool operator()(const E& a, const E& b) const { return a.key > b.key; } };
namespace sn = tlx::sort_networks;

template <int N> struct Direct;   // size-specific entry points
#define DIRECT_IT(N) \
  template <> struct Direct<N> { \
    template <typename C> static void best(E* a, C c) { sn::best::sort##N(a, sn::CS_IfSwap<C>(c)); } \
    template <typename C> static void bn(E* a, C c) { sn::bose_nelson::sort##N(a, sn::CS_IfSwap<C>(c)); } \
    template <typename C, size_t... I> static void bnp_(E* a, C c, std::index_sequence<I...>) { sn::bose_nelson_parameter::sort##N(a[I]..., sn::CS_IfSwap<C>(c)); } \
    template <typename C> static void bnp(E* a, C c) { bnp_(a, c, std::make_index_sequence<N>()); } };
DIRECT_IT(2) DIRECT_IT(3) DIRECT_IT(4) DIRECT_IT(5) DIRECT_IT(6) DIRECT_IT(7) DIRECT_IT(8) DIRECT_IT(9)
DIRECT_IT(10) DIRECT_IT(11) DIRECT_IT(12) DIRECT_IT(13) DIRECT_IT(14) DIRECT_IT(15) DIRECT_IT(16)

enum { BEST, BN, BNP };
template <int FAM, bool DIRECT, int N, typename C> static void run_one()
{
    E a[N + 1]; uint8_t in[N + 1];
    for (int i = 0; i < N; ++i) { a[i].key = in[i] = nondet_u8() & KEYMASK; a[i].id = (uint8_t)i; }
    C c;
    if constexpr (DIRECT && N >= 2) {
        if (FAM == BEST) Direct<N>::best(a, c); else if (FAM == BN) Direct<N>::bn(a, c); else Direct<N>::bnp(a, c);
    } else {
        if (FAM == BEST) sn::best::sort(a, a + N, c);
        else if (FAM == BN) sn::bose_nelson::sort(a, a + N, c);
        else sn::bose_nelson_parameter::sort(a, a + N, c);
    }
    uint32_t seen = 0;
    for (int i = 0; i < N; ++i) {
        if (i + 1 < N) CHECK(!c(a[i + 1], a[i]), "output is in non-decreasing comparator order");
        CHECK(a[i].id < N && !(seen >> a[i].id & 1), "output is a permutation (no element lost or duplicated)");
        seen |= 1u << a[i].id;
        CHECK(a[i].id < N && a[i].key == in[a[i].id], "each output element carries its own input key");
    }
    REACH("network sorted");
}
template <int FAM, bool DIRECT, int N, typename C> struct RunAll {
    static void go() { if constexpr (N >= NMIN) { run_one<FAM, DIRECT, N, C>(); } if constexpr (N > NMIN) RunAll<FAM, DIRECT, N - 1, C>::go(); } };

#ifndef CMP
#define CMP Less
#endif
HARNESS(h_best_dispatch) { RunAll<BEST, false, NMAX, CMP>::go(); }
HARNESS(h_best_direct) { RunAll<BEST, true, NMAX, CMP>::go(); }
HARNESS(h_bn_dispatch) { RunAll<BN, false, NMAX, CMP>::go(); }
HARNESS(h_bn_direct) { RunAll<BN, true, NMAX, CMP>::go(); }
HARNESS(h_bnp_dispatch) { RunAll<BNP, false, NMAX, CMP>::go(); }
HARNESS(h_bnp_direct) { RunAll<BNP, true, NMAX, CMP>::go(); }
