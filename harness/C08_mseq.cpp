// C08: multisequence_partition / multisequence_selection split sorted runs at the exact global rank (DESIGN.md §4 C08)
// sequence lengths are enumerated by -D (concrete), keys and the rank are symbolic
#include "verif.hpp"
#include <vector>
#include <utility>
#include <exception>
#include <tlx/algorithm/multisequence_partition.hpp>
#include <tlx/algorithm/multisequence_selection.hpp>
#ifndef M
#define M 2
#endif
#ifndef L0
#define L0 2
#endif
#ifndef L1
#define L1 2
#endif
#ifndef L2
#define L2 1
#endif
#ifndef KEYMASK
#define KEYMASK 3
#endif
#ifdef CMP_GREATER
struct Cmp { bool operator()(uint8_t a, uint8_t b) const { return a > b; } };
#define KLT(a, b) ((a) > (b))
#else
struct Cmp { bool operator()(uint8_t a, uint8_t b) const { return a < b; } };
#define KLT(a, b) ((a) < (b))
#endif
static const unsigned LEN[3] = {L0, L1, L2};
#define MAXL 8
#define NTOT (L0 + (M > 1 ? L1 : 0) + (M > 2 ? L2 : 0))
typedef std::pair<uint8_t*, uint8_t*> Seq;

static uint8_t data[3][MAXL + 1];
static void fill(Seq* seqs)
{
    for (unsigned s = 0; s < M; ++s) {
        for (unsigned i = 0; i < MAXL; ++i) { data[s][i] = nondet_u8() & KEYMASK; if (i > 0 && i < LEN[s]) ASSUME(!KLT(data[s][i], data[s][i - 1])); }
        seqs[s] = Seq(&data[s][0], &data[s][0] + LEN[s]);
    }
}
HARNESS(h_partition)
{
    Seq seqs[M]; fill(seqs);      // plain arrays: the number of sequences stays a constant for symbolic execution
    size_t rank = nondet_below(NTOT + 1);
    uint8_t* off[M];
    Seq* sb = seqs; Seq* se = seqs + M;
    tlx::multisequence_partition(sb, se, rank, off, Cmp());
    size_t left = 0;
    for (unsigned s = 0; s < M; ++s) { CHECK(off[s] >= seqs[s].first && off[s] <= seqs[s].second, "split position lies inside its sequence"); left += (size_t)(off[s] - seqs[s].first); }
    CHECK(left == rank, "the left parts together hold exactly rank elements");
    for (unsigned s = 0; s < M; ++s) for (unsigned t = 0; t < M; ++t) {
        unsigned as_ = (unsigned)(off[s] - seqs[s].first), at = (unsigned)(off[t] - seqs[t].first);
        if (as_ > 0 && as_ <= MAXL && at < LEN[t] && at < MAXL) {
            uint8_t lmax = data[s][as_ - 1], rmin = data[t][at];       // last element on the left of s, first on the right of t
            CHECK(!KLT(rmin, lmax), "no element on the left is greater than any element on the right");
            if (!KLT(lmax, rmin) && !KLT(rmin, lmax)) CHECK(s <= t, "among elements equivalent across the split the left side takes them from lower-numbered sequences first");
        }
    }
    OBS(rank);
    REACH("partition checked");
}
HARNESS(h_selection)
{
    Seq seqs[M]; fill(seqs); Seq* sb = seqs; Seq* se = seqs + M;
    size_t rank = nondet_below(NTOT + 1), offset = 999; bool threw = false; uint8_t v = 0;
    try { v = tlx::multisequence_selection<uint8_t>(sb, se, rank, offset, Cmp()); } catch (const std::exception&) { threw = true; }
    CHECK(threw == (rank >= NTOT), "multisequence_selection throws exactly for rank >= total size");
    if (!threw && rank < NTOT) {
        // the rank-th element of the merged order: count elements less than v and not greater than v
        size_t less = 0, leq = 0;
        for (unsigned s = 0; s < M; ++s) for (unsigned i = 0; i < MAXL; ++i) if (i < LEN[s]) { if (KLT(data[s][i], v)) ++less; if (!KLT(v, data[s][i])) ++leq; }
        CHECK(less <= rank && rank < leq, "the selected value is equivalent to the element at that rank of the merged order");
        CHECK(offset == rank - less, "offset is the rank of the selected element among the equivalent elements");
    }
    REACH("selection checked");
}
