// C07: parallel multiway merge equals the sequential merge for every thread count (DESIGN.md §4 C07)
// threads are step functions under the symbolic scheduler (their bodies contain no synchronisation, so each runs as one step, in every order);
// every store to the output is recorded by the element type's assignment operator: each output slot must be written exactly once.
#include "verif.hpp"
#include <vector>
#include <utility>
#include <tlx/algorithm/parallel_multiway_merge.hpp>
#ifndef KSEQ
#define KSEQ 2
#endif
#ifndef LENS
#define LENS {1, 1, 1}
#endif
#ifndef NTH
#define NTH 2
#endif
#ifndef SPLIT
#define SPLIT MWMSA_EXACT
#endif
#ifndef STABLE
#define STABLE 1
#endif
#ifndef OVERSAMPLING
#define OVERSAMPLING 1
#endif
#define MAXL 4
#define MAXOUT (KSEQ * MAXL + 2)
struct El;
static El* g_out = nullptr; static unsigned g_writes[MAXOUT + 1];
struct El { uint8_t key; uint8_t tag;
    El() : key(0), tag(255) {} El(uint8_t k, uint8_t t) : key(k), tag(t) {}
    El(const El& o) : key(o.key), tag(o.tag) { note(); }
    El& operator=(const El& o) { key = o.key; tag = o.tag; note(); return *this; }
    void note() { if (g_out && this >= g_out && this < g_out + MAXOUT) g_writes[this - g_out]++; } };
struct Cmp { bool operator()(const El& a, const El& b) const { return a.key < b.key; } };
static const unsigned LEN[3] = LENS;
extern "C" void verif_on_quiescence() { CHECK(false, "parallel multiway merge: threads came to rest blocked"); }

HARNESS(h_pmwm)
{
    static El data[KSEQ][MAXL + 1]; static El out[MAXOUT];
    std::vector<std::pair<El*, El*>> seqs(KSEQ); unsigned total = 0;
    for (unsigned s = 0; s < KSEQ; ++s) {
        for (unsigned i = 0; i < MAXL; ++i) { data[s][i].key = nondet_u8(); data[s][i].tag = (uint8_t)(s * 16 + i); if (i > 0 && i < LEN[s]) ASSUME(data[s][i - 1].key <= data[s][i].key); }
        seqs[s] = std::make_pair(&data[s][0], &data[s][0] + LEN[s]); total += LEN[s];
    }
    unsigned want = nondet_below(total + 1);
    tlx::parallel_multiway_merge_oversampling = OVERSAMPLING;
    for (unsigned j = 0; j < MAXOUT; ++j) g_writes[j] = 0;
    g_out = out;
    El* end = tlx::parallel_multiway_merge_base<STABLE != 0>(seqs.begin(), seqs.end(), out, (ptrdiff_t)want, Cmp(), tlx::MWMA_ALGORITHM_DEFAULT, tlx::SPLIT, (size_t)NTH);
    g_out = nullptr;
    if (total > 0) CHECK(end == out + want, "returns the end of the written range");
    // reference: sequential stable k-way merge
    unsigned pos[KSEQ];
    for (unsigned s = 0; s < KSEQ; ++s) pos[s] = 0;
    for (unsigned j = 0; j < KSEQ * MAXL; ++j) {
        if (j >= want) break;
        int best = -1;
        for (unsigned s = 0; s < KSEQ; ++s) if (pos[s] < LEN[s] && (best < 0 || data[s][pos[s]].key < data[best][pos[best]].key)) best = (int)s;
        CHECK(out[j].key == data[best][pos[best]].key, "parallel output equals the sequential merge (keys)");
#if STABLE
        CHECK(out[j].tag == data[best][pos[best]].tag, "stable variant: parallel output equals the stable sequential merge");
#endif
        CHECK(g_writes[j] == 1, "each output position is written by exactly one thread, exactly once");
        pos[best]++;
    }
    for (unsigned j = 0; j < MAXOUT; ++j) if (j >= want) CHECK(g_writes[j] == 0, "nothing is written past the requested length");
#if STABLE
    for (unsigned s = 0; s < KSEQ; ++s) if (LEN[s] > 0) CHECK(seqs[s].first == &data[s][0] + pos[s], "inputs are advanced past exactly the elements they contributed");
#else
    { unsigned adv = 0; for (unsigned s = 0; s < KSEQ; ++s) { CHECK(seqs[s].first >= &data[s][0] && seqs[s].first <= &data[s][0] + LEN[s], "input begin stays inside its sequence"); adv += (unsigned)(seqs[s].first - &data[s][0]); }
      CHECK(adv == want, "inputs are advanced past exactly as many elements as were merged"); }
#endif
    REACH("parallel merge checked");
}
