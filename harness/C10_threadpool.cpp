// C10: ThreadPool runs each job exactly once; loop_until_empty means quiescence (DESIGN.md §4 C10)
// real thread_pool.cpp compiled against the shim std::mutex/condition_variable/thread; workers, enqueuers and waiters are step functions.
#include "verif.hpp"
#include <tlx/thread_pool.hpp>
#ifndef WORKERS
#define WORKERS 1
#endif
#ifndef CONFIG
#define CONFIG 0     // 0: two independent jobs; 1: a job enqueues a job; 2: a job terminates the pool; 3: two threads wait for emptiness
#endif
typedef tlx::ThreadPool::Job Job;
static tlx::ThreadPool* pool;
static unsigned ran[3];          // per-job execution counters (non-atomic on purpose)
static unsigned waiter_returned;
static void job0() { ran[0]++; CHECK(ran[0] == 1, "no job is executed more than once"); }
static void job2() { ran[2]++; CHECK(ran[2] == 1, "no job is executed more than once"); }
static void job1() { ran[1]++; CHECK(ran[1] == 1, "no job is executed more than once");
#if CONFIG == 1
    pool->enqueue(Job::make<&job2>());      // a job enqueued from within another job
#elif CONFIG == 2
    pool->terminate();
#endif
}
extern "C" void verif_on_quiescence() { CHECK(false, "thread pool: threads came to rest blocked (deadlock / lost wake-up)"); }
#if CONFIG == 3
static void waiter(void*) { pool->loop_until_empty(); CHECK(ran[0] == 1 && ran[1] == 1, "second waiter: all jobs done when loop_until_empty returns"); waiter_returned++; }
#endif
HARNESS(h_threadpool)
{
    pool = new tlx::ThreadPool(WORKERS);
    pool->enqueue(Job::make<&job0>());
    pool->enqueue(Job::make<&job1>());
#if CONFIG == 2
    pool->loop_until_terminate();
    CHECK(ran[1] == 1, "the terminating job has run");
    CHECK(ran[0] <= 1 && ran[2] == 0, "no job runs twice");
#else
#if CONFIG == 3
    unsigned w = verif_thread_spawn(waiter, nullptr);
#endif
    pool->loop_until_empty();
    // quiescence: every job enqueued from outside or from within a job has run exactly once, effects visible, counters agree
    CHECK(ran[0] == 1 && ran[1] == 1, "every enqueued job has been executed exactly once when loop_until_empty returns");
#if CONFIG == 1
    CHECK(ran[2] == 1, "a job enqueued from within a job has run before loop_until_empty returns");
    CHECK(pool->done() == 3, "done() equals the number of jobs run");
#else
    CHECK(pool->done() == 2, "done() equals the number of jobs run");
#endif
#if CONFIG == 3
    verif_thread_join(w);
    CHECK(waiter_returned == 1, "both waiters return");
#endif
#endif
    delete pool;          // destruction returns once the workers have finished
    REACH("thread pool run complete");
}
