// C19: string codecs round-trip and string helpers match their documented semantics (DESIGN.md §4 C19)
// The real tlx/string/*.cpp translation units are linked in as IR; lengths are enumerated, bytes symbolic.
#include "verif.hpp"
#include <string>
#include <vector>
#include <stdexcept>
#include <tlx/string/base64.hpp>
#include <tlx/string/hexdump.hpp>
#include <tlx/string/split.hpp>
#include <tlx/string/join_quoted.hpp>
#include <tlx/string/split_quoted.hpp>
#include <tlx/string/replace.hpp>
#include <tlx/string/trim.hpp>
#include <tlx/string/levenshtein.hpp>
#include <tlx/string/to_lower.hpp>
#include <tlx/string/to_upper.hpp>
#include <tlx/string/compare_icase.hpp>
#include <tlx/string/equal_icase.hpp>
#include <tlx/string/starts_with.hpp>
#include <tlx/string/ends_with.hpp>
#include <tlx/string/contains.hpp>
#include <tlx/string/erase_all.hpp>
#include <tlx/string/pad.hpp>
template class std::basic_string<char>;
#ifndef N
#define N 3
#endif
#ifndef M
#define M 2
#endif
#ifndef LB
#define LB 0
#endif
template <typename F> static int run(F f) { try { f(); return 0; } catch (const std::runtime_error&) { return 1; } catch (...) { return 2; } }
static bool eq(const std::string& s, const char* b, size_t n) { if (s.size() != n) return false; for (size_t i = 0; i < n; ++i) if (s[i] != b[i]) return false; return true; }
static char lower(char c) { return (c >= 'A' && c <= 'Z') ? (char)(c - 'A' + 'a') : c; }
static char upper(char c) { return (c >= 'a' && c <= 'z') ? (char)(c - 'a' + 'A') : c; }

// ---------------------------------------------------------------- base64
static const char B64[65] = "ABCDEFGHIJKLMNOPQRSTUVWXYZabcdefghijklmnopqrstuvwxyz0123456789+/";
HARNESS(h_base64)
{
    uint8_t msg[N + 1]; for (unsigned i = 0; i < N; ++i) msg[i] = nondet_u8();
    std::string enc = tlx::base64_encode(msg, (size_t)N, (size_t)LB);
    // RFC 4648 reference encoding (no line breaks)
    char ref[4 * ((N + 2) / 3) + 1]; unsigned rn = 0;
    for (unsigned i = 0; i < N; i += 3) {
        uint32_t v = (uint32_t)msg[i] << 16; unsigned have = 1;
        if (i + 1 < N) { v |= (uint32_t)msg[i + 1] << 8; have = 2; }
        if (i + 2 < N) { v |= msg[i + 2]; have = 3; }
        ref[rn++] = B64[(v >> 18) & 63]; ref[rn++] = B64[(v >> 12) & 63];
        ref[rn++] = have >= 2 ? B64[(v >> 6) & 63] : '='; ref[rn++] = have >= 3 ? B64[v & 63] : '=';
    }
    // apart from the requested line breaks the output equals the RFC encoding
    { unsigned j = 0; bool ok = true; for (size_t i = 0; i < enc.size(); ++i) { if (enc[i] == '\n') { if (LB == 0) ok = false; continue; } if (j >= rn || enc[i] != ref[j]) ok = false; ++j; }
      CHECK(ok && j == rn, "base64_encode equals the RFC 4648 encoding apart from the requested line breaks"); }
    if (LB > 0) { unsigned run_ = 0; bool ok = true; for (size_t i = 0; i < enc.size(); ++i) { if (enc[i] == '\n') { if (run_ != LB) ok = false; run_ = 0; } else { ++run_; if (run_ > LB) ok = false; } }
      CHECK(ok, "line breaks come after exactly line_break characters"); }
    std::string dec; int e = run([&] { dec = tlx::base64_decode(enc.data(), enc.size(), true); });
    CHECK(e == 0 && eq(dec, (const char*)msg, N), "base64_decode(base64_encode(m)) == m");
    REACH("base64 round trip");
}
HARNESS(h_base64_strict)
{
    char in[N + 1]; bool bad = false;
    for (unsigned i = 0; i < N; ++i) { in[i] = (char)nondet_u8(); unsigned char c = (unsigned char)in[i];
        bool alpha = (c >= 'A' && c <= 'Z') || (c >= 'a' && c <= 'z') || (c >= '0' && c <= '9') || c == '+' || c == '/';
        bool space = c == ' ' || c == '\t' || c == '\n' || c == '\r' || c == '=';
        if (!alpha && !space) bad = true; }
    std::string d; int e = run([&] { d = tlx::base64_decode(in, (size_t)N, true); });
    CHECK(e == (bad ? 1 : 0), "strict base64_decode throws runtime_error exactly on a non-alphabet, non-space byte");
    std::string d2; int e2 = run([&] { d2 = tlx::base64_decode(in, (size_t)N, false); });
    CHECK(e2 == 0, "non-strict base64_decode never throws");
    if (!bad) CHECK(d2.size() == d.size(), "strict and non-strict decoding agree on valid input");
    REACH("base64 strict");
}
// ---------------------------------------------------------------- hexdump
HARNESS(h_hexdump)
{
    uint8_t msg[N + 1]; for (unsigned i = 0; i < N; ++i) msg[i] = nondet_u8();
    static const char UC[17] = "0123456789ABCDEF", LC[17] = "0123456789abcdef";
    std::string up = tlx::hexdump(msg, (size_t)N), lo = tlx::hexdump_lc(msg, (size_t)N);
    CHECK(up.size() == 2 * N && lo.size() == 2 * N, "hexdump length is 2 * size");
    for (unsigned i = 0; i < N; ++i) {
        CHECK(up[2 * i] == UC[msg[i] >> 4] && up[2 * i + 1] == UC[msg[i] & 15], "hexdump equals RFC 4648 base16 (upper case)");
        CHECK(lo[2 * i] == LC[msg[i] >> 4] && lo[2 * i + 1] == LC[msg[i] & 15], "hexdump_lc equals base16 in lower case");
    }
    std::string b1, b2; int e1 = run([&] { b1 = tlx::parse_hexdump(up); }), e2 = run([&] { b2 = tlx::parse_hexdump(lo); });
    CHECK(e1 == 0 && eq(b1, (const char*)msg, N), "parse_hexdump(hexdump(m)) == m");
    CHECK(e2 == 0 && eq(b2, (const char*)msg, N), "parse_hexdump(hexdump_lc(m)) == m");
    REACH("hexdump round trip");
}
HARNESS(h_parse_hexdump)
{
    char in[N + 1]; bool ok = (N % 2 == 0); uint8_t val[N / 2 + 1];
    for (unsigned i = 0; i < N; ++i) { in[i] = (char)nondet_u8(); char c = in[i]; int d = -1;
        if (c >= '0' && c <= '9') d = c - '0'; else if (c >= 'a' && c <= 'f') d = c - 'a' + 10; else if (c >= 'A' && c <= 'F') d = c - 'A' + 10;
        if (d < 0) ok = false; else if (i % 2 == 0) val[i / 2] = (uint8_t)(d << 4); else val[i / 2] |= (uint8_t)d; }
    std::string out; int e = run([&] { out = tlx::parse_hexdump(tlx::string_view(in, (size_t)N)); });
    CHECK(e == (ok ? 0 : 1), "parse_hexdump throws runtime_error exactly for odd length or a non-hex digit");
    if (ok) CHECK(eq(out, (const char*)val, N / 2), "parse_hexdump decodes base16");
    REACH("parse hexdump");
}
// ---------------------------------------------------------------- split / join round trip
#ifndef NPARTS
#define NPARTS 2
#endif
#ifndef SEPLEN
#define SEPLEN 1
#endif
static inline char sym_small(const char* alpha, unsigned n) { return alpha[nondet_below(n)]; }
HARNESS(h_split)
{
    // parts over {sep bytes, 'a', NUL, 0xFF}; side condition of the property: the separator neither occurs in nor straddles the parts
    static const char A[5] = {',', ';', 'a', '\0', (char)0xFF};
    char sep[2] = {',', ';'};
    char part[NPARTS][M + 1]; unsigned plen[NPARTS];
    char joined[NPARTS * (M + SEPLEN) + 1]; unsigned jn = 0;
    for (unsigned p = 0; p < NPARTS; ++p) {
        plen[p] = nondet_below(M + 1);
        if (p > 0) for (unsigned k = 0; k < SEPLEN; ++k) joined[jn++] = sep[k];
        for (unsigned i = 0; i < M; ++i) { part[p][i] = sym_small(A, 5); if (i < plen[p]) joined[jn++] = part[p][i]; }
    }
    // count separator occurrences in the joined string: must be exactly NPARTS - 1 (none inside or straddling parts)
    unsigned occ = 0;
    for (unsigned i = 0; i + SEPLEN <= jn; ++i) { bool m_ = true; for (unsigned k = 0; k < SEPLEN; ++k) if (joined[i + k] != sep[k]) m_ = false; if (m_) ++occ; }
    ASSUME(occ == NPARTS - 1);
    // the split(std::vector<std::string>* into, ...) overloads with a pre-reserved vector: std::vector reallocation (environment code) stays off the path
    std::vector<std::string> out; out.reserve(NPARTS + 1);
#if SEPLEN == 1
    tlx::split(&out, sep[0], tlx::string_view(joined, (size_t)jn));
#else
    tlx::split(&out, tlx::string_view(sep, (size_t)SEPLEN), tlx::string_view(joined, (size_t)jn));
#endif
    CHECK(out.size() == NPARTS, "split(sep, join(sep, parts)) returns as many fields as parts");
    if (out.size() == NPARTS) for (unsigned p = 0; p < NPARTS; ++p) CHECK(eq(out[p], part[p], plen[p]), "split(sep, join(sep, parts)) == parts");
    // limit semantics: at most `limit` fields, the last one holds the unsplit rest
    unsigned limit = 1 + nondet_below(NPARTS);
    std::vector<std::string> lim; lim.reserve(NPARTS + 1);
#if SEPLEN == 1
    tlx::split(&lim, sep[0], tlx::string_view(joined, (size_t)jn), (std::string::size_type)limit);
#else
    tlx::split(&lim, tlx::string_view(sep, (size_t)SEPLEN), tlx::string_view(joined, (size_t)jn), (std::string::size_type)limit);
#endif
    CHECK(lim.size() == limit, "split with limit returns exactly limit fields when there are at least that many");
    if (lim.size() == limit) { unsigned off = 0;
        for (unsigned p = 0; p < NPARTS; ++p) { if (p + 1 < limit) { CHECK(eq(lim[p], part[p], plen[p]), "fields before the limit are the parts"); off += plen[p] + SEPLEN; } }
        CHECK(eq(lim[limit - 1], joined + off, jn - off), "the last field under a limit holds the unsplit rest"); }
    REACH("split round trip");
}
HARNESS(h_split_ref)
{   // split(string sep, str, limit) on ARBITRARY input vs the definitional left-to-right, non-overlapping scan (separators that overlap themselves: "aa" in "aaa")
    static const char A[2] = {'a', 'b'};
    char str[N + 1]; for (unsigned i = 0; i < N; ++i) str[i] = sym_small(A, 2);
    char sep[2] = {sym_small(A, 2), sym_small(A, 2)};
    unsigned limit = 1 + nondet_below(N + 2);          // 1 .. N + 2 (N + 2 is never reached: at most N / 2 + 1 fields)
    unsigned fb[N + 2], fe[N + 2], nf = 0, last = 0, i = 0; bool cut = false;
    while (i + 2 <= N) {
        if (str[i] == sep[0] && str[i + 1] == sep[1]) {
            if (nf + 1 >= limit) { cut = true; break; }
            fb[nf] = last; fe[nf] = i; ++nf; last = i + 2; i += 2;
        } else ++i;
    }
    fb[nf] = last; fe[nf] = N; ++nf; (void)cut;
    std::vector<std::string> out; out.reserve(N + 2);
    int e = run([&] { tlx::split(&out, tlx::string_view(sep, (size_t)2), tlx::string_view(str, (size_t)N), (std::string::size_type)limit); });
    CHECK(e == 0, "split(string sep, str, limit) does not throw");
    if (e == 0) {
        CHECK(out.size() == nf, "split(string sep, str, limit) returns the fields of the left-to-right non-overlapping scan");
        if (out.size() == nf) for (unsigned f = 0; f < N + 2; ++f) if (f < nf) CHECK(eq(out[f], str + fb[f], fe[f] - fb[f]), "split(string sep, str, limit): field contents");
    }
    REACH("split vs reference");
}
HARNESS(h_quoted)
{
    // fields over {sep ' ', quote, escape, newline, 'a', NUL}
    static const char A[7] = {' ', '"', '\\', '\n', 'a', '\t', 'n'};
    char part[NPARTS][M + 1]; unsigned plen[NPARTS];
    std::vector<std::string> v;
    for (unsigned p = 0; p < NPARTS; ++p) {
        plen[p] = nondet_below(M + 1);
        for (unsigned i = 0; i < M; ++i) part[p][i] = sym_small(A, 7);
        v.push_back(std::string(part[p], plen[p]));
    }
    std::string j = tlx::join_quoted(v);
    std::vector<std::string> out; int e = run([&] { out = tlx::split_quoted(j); });
    CHECK(e == 0, "split_quoted accepts what join_quoted produced");
    CHECK(out.size() == NPARTS, "split_quoted(join_quoted(v)) has as many fields as v");
    if (e == 0 && out.size() == NPARTS) for (unsigned p = 0; p < NPARTS; ++p) CHECK(eq(out[p], part[p], plen[p]), "split_quoted(join_quoted(v)) == v");
    REACH("quoted round trip");
}
// ---------------------------------------------------------------- helpers, part A: replace / trim / erase_all / pad
HARNESS(h_helpers_a)
{
    static const char A[5] = {'a', 'b', ' ', '\0', (char)0xFF};
    char s[N + 1]; for (unsigned i = 0; i < N; ++i) s[i] = sym_small(A, 5);
    char nd[M + 1]; for (unsigned i = 0; i < M; ++i) nd[i] = sym_small(A, 5);
    char in[2] = {sym_small(A, 5), sym_small(A, 5)}; unsigned inl = nondet_below(3);
    tlx::string_view sv(s, (size_t)N), needle(nd, (size_t)M), instead(in, (size_t)inl);
    // reference replace_first / replace_all (non-empty needle): scan left to right, non-overlapping, replaced text is not rescanned
    { char r1[3 * N + 3]; unsigned n1 = 0; char ra[3 * N + 3]; unsigned na = 0; bool first_done = false;
      for (unsigned i = 0; i < N;) { bool m_ = (M > 0 && i + M <= N); for (unsigned k = 0; k < M && m_; ++k) if (s[i + k] != nd[k]) m_ = false;
          if (m_) { for (unsigned k = 0; k < inl; ++k) ra[na++] = in[k];
                    if (!first_done) { for (unsigned k = 0; k < inl; ++k) r1[n1++] = in[k]; first_done = true; } else { for (unsigned k = 0; k < M; ++k) r1[n1++] = s[i + k]; }
                    i += M; }
          else { ra[na++] = s[i]; r1[n1++] = s[i]; ++i; } }
      if (M > 0) { CHECK(eq(tlx::replace_first(sv, needle, instead), r1, n1), "replace_first replaces the leftmost occurrence only");
                   CHECK(eq(tlx::replace_all(sv, needle, instead), ra, na), "replace_all replaces every non-overlapping occurrence, left to right");
                   std::string t(s, (size_t)N); tlx::replace_all(&t, needle, instead); CHECK(eq(t, ra, na), "in-place replace_all equals the copying one"); } }
    { char c1 = nd[0], c2 = in[0]; char r[N + 1]; bool done = false; char ra[N + 1];
      for (unsigned i = 0; i < N; ++i) { ra[i] = s[i] == c1 ? c2 : s[i]; r[i] = (!done && s[i] == c1) ? c2 : s[i]; if (s[i] == c1) done = true; }
      CHECK(eq(tlx::replace_first(sv, c1, c2), r, N), "replace_first(char)"); CHECK(eq(tlx::replace_all(sv, c1, c2), ra, N), "replace_all(char)"); }
    // trim family with an explicit drop set and with a single char
    { unsigned b = 0, e = N; auto drop = [&](char c) { for (unsigned k = 0; k < M; ++k) if (nd[k] == c) return true; return false; };
      while (b < e && drop(s[b])) ++b; unsigned e2 = N; while (e2 > 0 && drop(s[e2 - 1])) --e2; while (e > b && drop(s[e - 1])) --e;
      { std::string t(s, (size_t)N); tlx::trim(&t, needle); CHECK(eq(t, s + b, e - b), "trim removes the drop characters at both ends"); }
      { std::string t(s, (size_t)N); tlx::trim_left(&t, needle); CHECK(eq(t, s + b, N - b), "trim_left removes leading drop characters"); }
      { std::string t(s, (size_t)N); tlx::trim_right(&t, needle); CHECK(eq(t, s, e2), "trim_right removes trailing drop characters"); }
      { tlx::string_view t = tlx::trim(sv, needle); CHECK(t.size() == e - b && (t.size() == 0 || t.data() == s + b), "trim(string_view) returns the trimmed range"); } }
    { std::string t(s, (size_t)N); tlx::trim(&t); unsigned b = 0, e = N; auto ws = [](char c) { return c == ' ' || c == '\r' || c == '\n' || c == '\t'; };
      while (b < e && ws(s[b])) ++b; while (e > b && ws(s[e - 1])) --e; CHECK(eq(t, s + b, e - b), "trim() removes white space at both ends"); }
    // erase_all
    { char r[N + 1]; unsigned rn = 0; for (unsigned i = 0; i < N; ++i) { bool d = false; for (unsigned k = 0; k < M; ++k) if (nd[k] == s[i]) d = true; if (!d) r[rn++] = s[i]; }
      if (M > 0) { CHECK(eq(tlx::erase_all(sv, needle), r, rn), "erase_all(view, drop set) removes exactly the drop characters");
                   std::string t(s, (size_t)N); tlx::erase_all(&t, needle); CHECK(eq(t, r, rn), "in-place erase_all(drop set)"); }
      char r2[N + 1]; unsigned r2n = 0; for (unsigned i = 0; i < N; ++i) if (s[i] != nd[0]) r2[r2n++] = s[i];
      CHECK(eq(tlx::erase_all(sv, nd[0]), r2, r2n), "erase_all(view, char)"); { std::string t(s, (size_t)N); tlx::erase_all(&t, nd[0]); CHECK(eq(t, r2, r2n), "in-place erase_all(char)"); } }
    // pad
    { unsigned len = nondet_below(N + 3); char r[N + 3]; for (unsigned i = 0; i < N + 3; ++i) r[i] = i < N ? s[i] : in[0];
      CHECK(eq(tlx::pad(sv, (size_t)len, in[0]), r, len), "pad truncates or fills to exactly len characters"); }
    REACH("helpers a");
}
// ---------------------------------------------------------------- helpers, part B: starts/ends_with, contains, case, compare_icase, levenshtein
HARNESS(h_helpers_b)
{
    static const char A[6] = {'a', 'A', 'b', 'Z', '[', (char)0xE4};   // letters in both cases, a neighbour of 'Z', a high byte (no localisation)
    char s[N + 1], t[M + 1];
    for (unsigned i = 0; i < N; ++i) s[i] = sym_small(A, 6);
    for (unsigned i = 0; i < M; ++i) t[i] = sym_small(A, 6);
    s[N] = 0; t[M] = 0;
    tlx::string_view a(s, (size_t)N), b(t, (size_t)M);
    bool sw = M <= N, ew = M <= N, swi = M <= N, ewi = M <= N;
    for (unsigned i = 0; i < M && M <= N; ++i) { if (s[i] != t[i]) sw = false; if (s[N - M + i] != t[i]) ew = false;
        if (lower(s[i]) != lower(t[i])) swi = false; if (lower(s[N - M + i]) != lower(t[i])) ewi = false; }
    CHECK(tlx::starts_with(a, b) == sw, "starts_with"); CHECK(tlx::starts_with_icase(a, b) == swi, "starts_with_icase");
    CHECK(tlx::ends_with(a, b) == ew, "ends_with(view, view)"); CHECK(tlx::ends_with_icase(a, b) == ewi, "ends_with_icase(view, view)");
    CHECK(tlx::ends_with((const char*)s, (const char*)t) == ew && tlx::ends_with((const char*)s, b) == ew && tlx::ends_with(a, (const char*)t) == ew, "ends_with (const char* overloads)");
    CHECK(tlx::ends_with_icase((const char*)s, (const char*)t) == ewi && tlx::ends_with_icase((const char*)s, b) == ewi && tlx::ends_with_icase(a, (const char*)t) == ewi, "ends_with_icase (const char* overloads)");
    { bool c = false; for (unsigned i = 0; i + M <= N; ++i) { bool m_ = true; for (unsigned k = 0; k < M; ++k) if (s[i + k] != t[k]) m_ = false; if (m_) c = true; }
      CHECK(tlx::contains(a, b) == c, "contains(view, pattern)"); bool cc = false; for (unsigned i = 0; i < N; ++i) if (s[i] == t[0]) cc = true; CHECK(tlx::contains(a, t[0]) == cc, "contains(view, char)"); }
    { std::string lo = tlx::to_lower(a), up = tlx::to_upper(a); CHECK(lo.size() == N && up.size() == N, "case conversion keeps the length");
      for (unsigned i = 0; i < N; ++i) { CHECK(lo[i] == lower(s[i]), "to_lower maps A-Z only"); CHECK(up[i] == upper(s[i]), "to_upper maps a-z only"); }
      std::string x(s, (size_t)N); tlx::to_lower(&x); std::string y(s, (size_t)N); tlx::to_upper(&y); for (unsigned i = 0; i < N; ++i) CHECK(x[i] == lower(s[i]) && y[i] == upper(s[i]), "in-place case conversion"); }
    { // documented: like strcmp(a, b) but without regard for letter case
      int ref = 0; for (unsigned i = 0;; ++i) { if (i >= N && i >= M) break; if (i >= N) { ref = -1; break; } if (i >= M) { ref = 1; break; }
          int ca = lower(s[i]), cb = lower(t[i]); if (ca != cb) { ref = ca < cb ? -1 : 1; break; } }
      auto sg = [](int v) { return v < 0 ? -1 : (v > 0 ? 1 : 0); };
#ifdef KF_ICASE_PREFIX
      if (ref != 0 && (N < M ? swi || true : true)) { bool prefix = true; for (unsigned i = 0; i < (N < M ? N : M); ++i) if (lower(s[i]) != lower(t[i])) prefix = false; ASSUME(!prefix || N == M); }
#endif
      CHECK(sg(tlx::compare_icase(a, b)) == ref, "compare_icase(view, view) has the sign of strcmp on the lower-cased strings");
      CHECK(sg(tlx::compare_icase((const char*)s, (const char*)t)) == ref && sg(tlx::compare_icase((const char*)s, b)) == ref && sg(tlx::compare_icase(a, (const char*)t)) == ref, "compare_icase (const char* overloads)");
      CHECK(tlx::equal_icase(a, b) == (ref == 0) && tlx::equal_icase((const char*)s, (const char*)t) == (ref == 0), "equal_icase");
      CHECK(tlx::equal_icase((const char*)s, b) == (ref == 0), "equal_icase(const char*, view)");
      CHECK(tlx::equal_icase(a, (const char*)t) == (ref == 0), "equal_icase(view, const char*)"); }
    { // Levenshtein distance by the full Wagner-Fischer matrix
      unsigned d[N + 1][M + 1], di[N + 1][M + 1];
      for (unsigned i = 0; i <= N; ++i) for (unsigned j = 0; j <= M; ++j) {
          if (i == 0) { d[i][j] = j; di[i][j] = j; } else if (j == 0) { d[i][j] = i; di[i][j] = i; }
          else { unsigned x = d[i - 1][j] + 1, y = d[i][j - 1] + 1, z = d[i - 1][j - 1] + (s[i - 1] == t[j - 1] ? 0 : 1); d[i][j] = x < y ? (x < z ? x : z) : (y < z ? y : z);
                 unsigned xi = di[i - 1][j] + 1, yi = di[i][j - 1] + 1, zi = di[i - 1][j - 1] + (lower(s[i - 1]) == lower(t[j - 1]) ? 0 : 1); di[i][j] = xi < yi ? (xi < zi ? xi : zi) : (yi < zi ? yi : zi); } }
      CHECK(tlx::levenshtein(a, b) == d[N][M], "levenshtein equals the edit distance"); CHECK(tlx::levenshtein_icase(a, b) == di[N][M], "levenshtein_icase equals the case-insensitive edit distance"); }
    REACH("helpers b");
}
