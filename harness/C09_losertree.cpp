// C09: loser trees report a minimum-holding source; stable ones break ties by index (DESIGN.md §4 C09)
#include "verif.hpp"
#include <tlx/container/loser_tree.hpp>
#ifndef K
#define K 3
#endif
#ifndef H
#define H 4
#endif
#ifndef VARIANT
#define VARIANT 0
#endif
#ifdef CMP_GREATER
struct Cmp { bool operator()(uint8_t a, uint8_t b) const { return a > b; } };
static const uint8_t SENT = 0;      // supremum under >
#define KEY_OK(k) ((k) >= 1)
#else
struct Cmp { bool operator()(uint8_t a, uint8_t b) const { return a < b; } };
static const uint8_t SENT = 255;
#define KEY_OK(k) ((k) <= 254)
#endif
#if VARIANT == 0
typedef tlx::LoserTreeCopy<false, uint8_t, Cmp> LT; enum { STABLE = 0, GUARDED = 1 };
#elif VARIANT == 1
typedef tlx::LoserTreeCopy<true, uint8_t, Cmp> LT; enum { STABLE = 1, GUARDED = 1 };
#elif VARIANT == 2
typedef tlx::LoserTreePointer<false, uint8_t, Cmp> LT; enum { STABLE = 0, GUARDED = 1 };
#elif VARIANT == 3
typedef tlx::LoserTreePointer<true, uint8_t, Cmp> LT; enum { STABLE = 1, GUARDED = 1 };
#elif VARIANT == 4
typedef tlx::LoserTreeCopyUnguarded<false, uint8_t, Cmp> LT; enum { STABLE = 0, GUARDED = 0 };
#elif VARIANT == 5
typedef tlx::LoserTreeCopyUnguarded<true, uint8_t, Cmp> LT; enum { STABLE = 1, GUARDED = 0 };
#elif VARIANT == 6
typedef tlx::LoserTreePointerUnguarded<false, uint8_t, Cmp> LT; enum { STABLE = 0, GUARDED = 0 };
#else
typedef tlx::LoserTreePointerUnguarded<true, uint8_t, Cmp> LT; enum { STABLE = 1, GUARDED = 0 };
#endif

#include <type_traits>
template <class T> static T* make(std::true_type) { return new T(K); }
template <class T> static T* make(std::false_type) { return new T(K, SENT); }

HARNESS(h_losertree)
{
    static uint8_t keys[K][H + 2];   // every key a player ever shows lives at its own address (pointer variants keep pointers)
    unsigned pos[K]; bool live[K];
    Cmp cmp;
    LT* ltp = make<LT>(std::integral_constant<bool, GUARDED != 0>()); LT& lt = *ltp;
    for (unsigned i = 0; i < K; ++i) {
        pos[i] = 0;
        live[i] = GUARDED ? nondet_bool() : true;      // guarded: a player may be exhausted from the start
        keys[i][0] = nondet_u8();
        if (!GUARDED) ASSUME(KEY_OK(keys[i][0]));       // unguarded: documented sentinel precondition
        lt.insert_start(live[i] ? &keys[i][0] : nullptr, i, !live[i]);
    }
    lt.init();
    for (unsigned step = 0; step <= H; ++step) {
        unsigned w = lt.min_source();
        bool anylive = false;
        for (unsigned i = 0; i < K; ++i) anylive |= live[i];
        if (!anylive) break;
        CHECK(w < K, "winner is a real player while a live one remains");
        if (w >= K) break;
        CHECK(live[w], "winner is not an exhausted player while a live one remains");
        uint8_t wk = keys[w][pos[w]];
        for (unsigned i = 0; i < K; ++i) {
            if (!live[i]) continue;
            CHECK(!cmp(keys[i][pos[i]], wk), "winner's key is not greater than any live player's key");
            if (STABLE && i < w) CHECK(cmp(wk, keys[i][pos[i]]), "stable: winner has the smallest index among equivalent keys");
        }
        OBS(w);
        if (step == H) { REACH("all replace steps done"); break; }
        if (GUARDED && nondet_bool()) { live[w] = false; lt.delete_min_insert(nullptr, true); }
        else {
            pos[w]++; keys[w][pos[w]] = nondet_u8();     // not assumed monotone: the property does not require it
            if (!GUARDED) ASSUME(KEY_OK(keys[w][pos[w]]));
            lt.delete_min_insert(&keys[w][pos[w]], false);
        }
    }
    delete ltp;
}
