// C05: sequential multiway merge emits the smallest elements in order, stably, advancing inputs (DESIGN.md §4 C05)
#include "verif.hpp"
#include <tlx/algorithm/multiway_merge.hpp>
#include <vector>
#include <utility>
#ifndef KSEQ
#define KSEQ 3
#endif
#ifndef MAXLEN
#define MAXLEN 2
#endif
#ifndef ALGO
#define ALGO MWMA_LOSER_TREE_COMBINED
#endif
#ifndef STABLE
#define STABLE 1
#endif
#ifndef SENT
#define SENT 0
#endif
#ifndef PAD
#define PAD 0       // PAD=22 makes the element 24 bytes, which selects the pointer-based loser trees
#endif
struct El { uint8_t key; uint8_t tag;
#if PAD > 0
  uint8_t pad[PAD];
#endif
};
#ifdef CMP_GREATER
struct Cmp { bool operator()(const El& a, const El& b) const { return a.key > b.key; } };
#define KLT(a, b) ((a) > (b))
#else
struct Cmp { bool operator()(const El& a, const El& b) const { return a.key < b.key; } };
#define KLT(a, b) ((a) < (b))
#endif
#define SLOTS (MAXLEN + 2)

HARNESS(h_mwmerge)
{
    El* data[KSEQ + 1]; unsigned len[KSEQ + 1]; unsigned total = 0;
    std::vector<std::pair<El*, El*>> seqs(KSEQ);
    for (unsigned s = 0; s < KSEQ; ++s) {
        data[s] = new El[SLOTS];                      // every sequence is its own object: a read past it is a bounds violation
        len[s] = nondet_u32(); ASSUME(len[s] <= MAXLEN);
        for (unsigned i = 0; i < SLOTS; ++i) {        // slots past the end (and past the sentinel) hold unconstrained garbage
            data[s][i].key = nondet_u8(); data[s][i].tag = (uint8_t)(s * 16 + i);
            if (i > 0 && i < len[s]) ASSUME(!KLT(data[s][i].key, data[s][i - 1].key));
        }
        seqs[s] = std::make_pair(data[s], data[s] + len[s]);
        total += len[s];
    }
#if SENT
    // sentinel variants: the slot after each sequence holds an element greater than all real ones
    for (unsigned s = 0; s < KSEQ; ++s)
        for (unsigned t = 0; t < KSEQ; ++t)
            for (unsigned i = 0; i < MAXLEN; ++i)
                if (i < len[t]) ASSUME(KLT(data[t][i].key, data[s][len[s]].key));
#endif
    unsigned want = nondet_u32(); ASSUME(want <= total);
    El out[KSEQ * MAXLEN + 2];
    for (unsigned j = 0; j < KSEQ * MAXLEN + 2; ++j) { out[j].key = 0; out[j].tag = 255; }
    El* end;
#if STABLE && SENT
    end = tlx::stable_multiway_merge_sentinels(seqs.begin(), seqs.end(), out, (ptrdiff_t)want, Cmp(), tlx::ALGO);
#elif STABLE
    end = tlx::stable_multiway_merge(seqs.begin(), seqs.end(), out, (ptrdiff_t)want, Cmp(), tlx::ALGO);
#elif SENT
    end = tlx::multiway_merge_sentinels(seqs.begin(), seqs.end(), out, (ptrdiff_t)want, Cmp(), tlx::ALGO);
#else
    end = tlx::multiway_merge(seqs.begin(), seqs.end(), out, (ptrdiff_t)want, Cmp(), tlx::ALGO);
#endif
    CHECK(end == out + want, "returns the end of the written range");
    CHECK(out[want].tag == 255 && out[want + 1].tag == 255, "nothing is written past the requested length");
    // reference: stable k-way selection
    unsigned pos[KSEQ + 1]; unsigned cnt[KSEQ + 1]; uint32_t seen[KSEQ + 1];
    for (unsigned s = 0; s < KSEQ; ++s) { pos[s] = 0; cnt[s] = 0; seen[s] = 0; }
    for (unsigned j = 0; j < KSEQ * MAXLEN; ++j) {
        if (j >= want) break;
        int best = -1;
        for (unsigned s = 0; s < KSEQ; ++s)
            if (pos[s] < len[s] && (best < 0 || KLT(data[s][pos[s]].key, data[best][pos[best]].key))) best = (int)s;
        CHECK(best >= 0, "reference has an element");
        CHECK(out[j].key == data[best][pos[best]].key, "output holds the smallest remaining key (non-decreasing order)");
#if STABLE
        CHECK(out[j].tag == data[best][pos[best]].tag, "stable: equivalent elements ordered by sequence index, then position");
#else
        { unsigned s = out[j].tag >> 4, i = out[j].tag & 15;
          CHECK(s < KSEQ && i < MAXLEN && i < len[s] && data[s][i].key == out[j].key, "output element is a real input element with its own key");
          if (s < KSEQ && i < 16) { CHECK(!(seen[s] >> i & 1), "no input element is emitted twice"); seen[s] |= 1u << i; cnt[s]++; } }
#endif
        pos[best]++;
        OBS(out[j].tag);
    }
    for (unsigned s = 0; s < KSEQ; ++s) {
#if STABLE
        CHECK(seqs[s].first == data[s] + pos[s], "each input begin is advanced just past the elements taken from it");
#else
        unsigned adv = (unsigned)(seqs[s].first - data[s]);
        CHECK(adv <= len[s] && adv == cnt[s] && seen[s] == (1u << adv) - 1, "each input begin is advanced just past the elements taken from it");
#endif
        CHECK(seqs[s].second == data[s] + len[s], "input end positions are unchanged");
    }
    REACH("merge checked");
    for (unsigned s = 0; s < KSEQ; ++s) delete[] data[s];
}
