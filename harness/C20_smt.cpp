// C20 (SMT back end): division kernels wider than 8 bit and Aggregate's algebraic identities (DESIGN.md §4 C20).
// Each function is loop-free after clang -O1, returns "property holds", and is translated by engine/ll2smt.py:
// integers as mathematical Int with explicit wrap-around, doubles as Real (the property says "up to floating-point rounding").
#include <cstdint>
#include <cstddef>
#include <cmath>
#include <utility>
#include <tlx/math/div_ceil.hpp>
#include <tlx/math/round_up.hpp>
#include <tlx/math/aggregate.hpp>
#ifdef VERIF_NATIVE
static bool EQ(double a, double b) { double d = std::fabs(a - b), s = std::fabs(a) + std::fabs(b); return d <= 1e-9 * (s > 1 ? s : 1) && std::isfinite(a) == std::isfinite(b) && !std::isnan(a) && !std::isnan(b); }   // rounding tolerance for native replay
#else
static bool EQ(double a, double b) { return a == b; }    // exact in real arithmetic
#endif
extern "C" {
bool p_divceil_u16(uint16_t n, uint16_t k) { if (k == 0) return true; uint32_t ref = (uint32_t)n / k + ((uint32_t)n % k != 0); return (uint32_t)tlx::div_ceil(n, k) == ref && (uint32_t)tlx::round_up(n, k) == ref * k; }
bool p_divceil_u32(uint32_t n, uint32_t k) { if (k == 0 || (uint64_t)n + k - 1 > 0xffffffffull) return true; uint32_t ref = n / k + (n % k != 0); return tlx::div_ceil(n, k) == ref && tlx::round_up(n, k) == ref * k; }
bool p_divceil_u64(uint64_t n, uint64_t k) { if (k == 0 || n > ~0ull - (k - 1)) return true; uint64_t ref = n / k + (n % k != 0); return tlx::div_ceil(n, k) == ref && tlx::round_up(n, k) == ref * k; }
bool p_divceil_i32(int32_t n, int32_t k) { if (k <= 0 || n < 0 || (int64_t)n + k - 1 > 0x7fffffffll) return true; int32_t ref = n / k + (n % k != 0); return tlx::div_ceil(n, k) == ref && tlx::round_up(n, k) == ref * k; }
bool p_divceil_i64(int64_t n, int64_t k) { if (k <= 0 || n < 0 || n > 0x7fffffffffffffffll - (k - 1)) return true; int64_t ref = n / k + (n % k != 0); return tlx::div_ceil(n, k) == ref && tlx::round_up(n, k) == ref * k; }
}
// ---- Aggregate: combining == feeding all values into one aggregate; |A| = I, |B| = J enumerated by instantiation
typedef tlx::Aggregate<double> Agg;
template <size_t I, size_t J, bool PLUSEQ> static bool agg_prop(const double* a, const double* b)
{
    Agg A, B, C;
    for (size_t i = 0; i < I; ++i) { A.add(a[i]); C.add(a[i]); }
    for (size_t j = 0; j < J; ++j) { B.add(b[j]); C.add(b[j]); }
    Agg R = A;
    if (PLUSEQ) R += B; else R = A + B;
    bool ok = R.count() == C.count() && EQ(R.mean(), C.mean()) && EQ(R.variance(0), C.variance(0)) && EQ(R.variance(1), C.variance(1));
    if (I + J > 0) ok = ok && EQ(R.min(), C.min()) && EQ(R.max(), C.max());
#ifdef AGG_THEN_ADD
    // the combined aggregate must also behave like the sequential one afterwards
    R.add(a[2]); C.add(a[2]); ok = ok && EQ(R.mean(), C.mean()) && EQ(R.variance(0), C.variance(0));
#endif
    return ok;
}
#define AGG(I, J) \
  extern "C" bool p_agg_plus_##I##_##J(double a0, double a1, double a2, double b0, double b1, double b2) { double a[3] = {a0, a1, a2}, b[3] = {b0, b1, b2}; return agg_prop<I, J, false>(a, b); } \
  extern "C" bool p_agg_pluseq_##I##_##J(double a0, double a1, double a2, double b0, double b1, double b2) { double a[3] = {a0, a1, a2}, b[3] = {b0, b1, b2}; return agg_prop<I, J, true>(a, b); }
AGG(0, 0) AGG(0, 1) AGG(0, 2) AGG(1, 0) AGG(1, 1) AGG(1, 2) AGG(2, 0) AGG(2, 1) AGG(2, 2) AGG(3, 0) AGG(0, 3) AGG(3, 1) AGG(1, 3) AGG(3, 2) AGG(2, 3) AGG(3, 3)
#ifdef VERIF_NATIVE
#include <cstdio>
#include <cstdlib>
#include <cstring>
#define XSTR(x) #x
#define STR(x) XSTR(x)
int main(int argc, char** argv) {   // native replay: VERIF_FN(args...) with the solver's model values
    bool r = false;
#if defined(VERIF_KIND_INT)
    r = VERIF_FN((VERIF_T)strtoull(argv[1], 0, 10), (VERIF_T)strtoull(argv[2], 0, 10));
#else
    double v[6]; for (int i = 0; i < 6; ++i) v[i] = i + 1 < argc ? atof(argv[i + 1]) : 0.0;
    r = VERIF_FN(v[0], v[1], v[2], v[3], v[4], v[5]);
#endif
    printf("%s\n", r ? "PASS" : "ASSERT-FAIL: " STR(VERIF_FN)); return 0;
}
#endif
