// C14: digests equal their standards for every message and every chunking (DESIGN.md §4 C14)
//  obligation 1 (this file, h_chunking): buffering + padding + chaining + serialisation for all chunkings, with the compression
//     function replaced by a recorder through the guarded hook TLX_VERIF_DIGEST_HOOK (fresh symbolic out-state per call);
//  obligation 2 (h_compress_*): one compression step == the standard's round function (compositional miter);
//  obligation 3 (C14_siphash.cpp): SipHash.
#include "verif.hpp"
#include <string>
#include <tlx/digest/md5.hpp>
#include <tlx/digest/sha1.hpp>
#include <tlx/digest/sha256.hpp>
#include <tlx/digest/sha512.hpp>
template class std::basic_string<char>;
#ifndef ALGO
#define ALGO 2
#endif
#ifndef NMIN
#define NMIN 0
#endif
#ifndef NMAX
#define NMAX 8
#endif
#if ALGO == 0
typedef tlx::MD5 D; typedef uint32_t W; enum { NS = 4, BLK = 64, LENB = 8, BIG = 0, DLEN = 16 };
static const W IV[NS] = {0x67452301u, 0xefcdab89u, 0x98badcfeu, 0x10325476u};                       // RFC 1321 3.3
#define HOOKNS namespace tlx { namespace digest_detail {
#define HOOKNS_END } }
#define HOOKNAME tlx_verif_md5_compress
#define HEXFN tlx::md5_hex
#define HEXUCFN tlx::md5_hex_uc
#elif ALGO == 1
typedef tlx::SHA1 D; typedef uint32_t W; enum { NS = 5, BLK = 64, LENB = 8, BIG = 1, DLEN = 20 };
static const W IV[NS] = {0x67452301u, 0xefcdab89u, 0x98badcfeu, 0x10325476u, 0xc3d2e1f0u};          // FIPS 180-4 5.3.1
#define HOOKNS namespace tlx { namespace digest_detail {
#define HOOKNS_END } }
#define HOOKNAME tlx_verif_sha1_compress
#define HEXFN tlx::sha1_hex
#define HEXUCFN tlx::sha1_hex_uc
#elif ALGO == 2
typedef tlx::SHA256 D; typedef uint32_t W; enum { NS = 8, BLK = 64, LENB = 8, BIG = 1, DLEN = 32 };
static const W IV[NS] = {0x6a09e667u, 0xbb67ae85u, 0x3c6ef372u, 0xa54ff53au, 0x510e527fu, 0x9b05688cu, 0x1f83d9abu, 0x5be0cd19u};   // FIPS 180-4 5.3.3
#define HOOKNS namespace tlx {
#define HOOKNS_END }
#define HOOKNAME tlx_verif_sha256_compress
#define HEXFN tlx::sha256_hex
#define HEXUCFN tlx::sha256_hex_uc
#else
typedef tlx::SHA512 D; typedef uint64_t W; enum { NS = 8, BLK = 128, LENB = 16, BIG = 1, DLEN = 64 };
static const W IV[NS] = {0x6a09e667f3bcc908ull, 0xbb67ae8584caa73bull, 0x3c6ef372fe94f82bull, 0xa54ff53a5f1d36f1ull,
                         0x510e527fade682d1ull, 0x9b05688c2b3e6c1full, 0x1f83d9abfb41bd6bull, 0x5be0cd19137e2179ull};               // FIPS 180-4 5.3.5
#define HOOKNS namespace tlx { namespace digest_detail {
#define HOOKNS_END } }
#define HOOKNAME tlx_verif_sha512_compress
#define HEXFN tlx::sha512_hex
#define HEXUCFN tlx::sha512_hex_uc
#endif
#define MAXB 4
// ---- recorder standing in for the compression function (obligation 1)
static W rec_in[MAXB][NS], rec_out[MAXB][NS]; static uint8_t rec_blk[MAXB][BLK]; static unsigned rec_n;
HOOKNS
void HOOKNAME(W* state, const uint8_t* buf)
{
    if (rec_n < MAXB) {
        for (unsigned i = 0; i < NS; ++i) rec_in[rec_n][i] = state[i];
        for (unsigned i = 0; i < BLK; ++i) rec_blk[rec_n][i] = buf[i];
        for (unsigned i = 0; i < NS; ++i) { W v = sizeof(W) == 8 ? (W)nondet_u64() : (W)nondet_u32(); rec_out[rec_n][i] = v; state[i] = v; }
    }
    ++rec_n;
}
HOOKNS_END

static uint8_t msg[NMAX + 1];
// the standard's padding: message, 0x80, zeros, bit length (LENB bytes, big endian except MD5), to a multiple of BLK
static uint8_t padded_byte(unsigned n, unsigned p)
{
    unsigned total = ((n + 1 + LENB + BLK - 1) / BLK) * BLK;
    if (p < n) return msg[p];
    if (p == n) return 0x80;
    if (p >= total - LENB) { unsigned k = p - (total - LENB);    // k-th byte of the length field
        uint64_t bits = (uint64_t)n * 8;
        if (BIG) { unsigned sh = LENB - 1 - k; return sh >= 8 ? 0 : (uint8_t)(bits >> (8 * sh)); }
        return k >= 8 ? 0 : (uint8_t)(bits >> (8 * k)); }
    return 0;
}
static void check_run(unsigned n, const uint8_t* dig)
{
    unsigned total = ((n + 1 + LENB + BLK - 1) / BLK) * BLK;
    CHECK(rec_n == total / BLK, "the compression function is applied once per block of the padded message");
    for (unsigned b = 0; b < MAXB; ++b) {
        if (b >= rec_n) break;
        for (unsigned i = 0; i < BLK; ++i) CHECK(rec_blk[b][i] == padded_byte(n, b * BLK + i), "block fed to the compression function equals the standard's padded message");
        for (unsigned i = 0; i < NS; ++i) CHECK(rec_in[b][i] == (b == 0 ? IV[i] : rec_out[b - 1][i]), "chaining: initial value first, then the previous output state");
    }
    if (rec_n >= 1 && rec_n <= MAXB)
        for (unsigned i = 0; i < NS; ++i) for (unsigned j = 0; j < sizeof(W); ++j) {
            if (sizeof(W) * i + j >= DLEN) break;
            uint8_t e = BIG ? (uint8_t)(rec_out[rec_n - 1][i] >> (8 * (sizeof(W) - 1 - j))) : (uint8_t)(rec_out[rec_n - 1][i] >> (8 * j));
            CHECK(dig[sizeof(W) * i + j] == e, "digest is the serialised final state (byte order of the standard)");
        }
}

HARNESS(h_chunking)
{
    for (unsigned i = 0; i < NMAX; ++i) msg[i] = nondet_u8();
    for (unsigned n = NMIN; n <= NMAX; ++n) {
        for (unsigned a = 0; a <= n; ++a) {                    // every split into two process() calls (a = 0 and a = n: one empty call)
            rec_n = 0; uint8_t dig[DLEN];
            D d; d.process(msg, a); d.process(msg + a, n - a); d.finalize(dig);
            check_run(n, dig);
        }
#ifdef TRIPLE
        for (unsigned a = 0; a <= n; ++a) for (unsigned b = a; b <= n; ++b) {   // every split into three calls
            rec_n = 0; uint8_t dig[DLEN];
            D d; d.process(msg, a); d.process(msg + a, b - a); d.process(msg + b, n - b); d.finalize(dig);
            check_run(n, dig);
        }
#endif
    }
    REACH("all chunkings checked");
}
HARNESS(h_hexforms)
{   // raw / lower hex / upper hex forms and the helper functions serialise the same final state
    for (unsigned i = 0; i < NMAX; ++i) msg[i] = nondet_u8();
    const unsigned n = NMAX;
    auto hexval = [](char c, bool upper) -> int { if (c >= '0' && c <= '9') return c - '0'; if (upper ? (c >= 'A' && c <= 'F') : (c >= 'a' && c <= 'f')) return c - (upper ? 'A' : 'a') + 10; return -1; };
    uint8_t dig[DLEN]; rec_n = 0; { D d(msg, n); d.finalize(dig); } check_run(n, dig);
    unsigned last = rec_n - 1;
    rec_n = 0; std::string raw; { D d(msg, n); raw = d.digest(); }
    // the recorder hands out fresh states on every run: compare each form with the state of its own run
    CHECK(raw.size() == DLEN, "digest() has the digest length"); check_run(n, (const uint8_t*)raw.data());
    rec_n = 0; std::string lo = HEXFN(msg, n); uint8_t b1[DLEN];
    CHECK(lo.size() == 2 * DLEN, "hex digest length"); bool ok = true;
    for (unsigned i = 0; i < DLEN; ++i) { int hi_ = hexval(lo[2 * i], false), lo_ = hexval(lo[2 * i + 1], false); if (hi_ < 0 || lo_ < 0) ok = false; b1[i] = (uint8_t)(hi_ * 16 + lo_); }
    CHECK(ok, "lower-case hex digest uses 0-9a-f"); check_run(n, b1);
    rec_n = 0; std::string up = HEXUCFN(msg, n); ok = true;
    for (unsigned i = 0; i < DLEN; ++i) { int hi_ = hexval(up[2 * i], true), lo_ = hexval(up[2 * i + 1], true); if (hi_ < 0 || lo_ < 0) ok = false; b1[i] = (uint8_t)(hi_ * 16 + lo_); }
    CHECK(ok && up.size() == 2 * DLEN, "upper-case hex digest uses 0-9A-F"); check_run(n, b1);
    (void)last;
    REACH("hex forms checked");
}
