/* SipHash-2-4 reference, written from Aumasson & Bernstein, "SipHash: a fast short-input PRF" (2012), section 2.  Plain C for CBMC / native. */
#include <stdint.h>
#ifdef __cplusplus
extern "C" {
#endif
static uint64_t sip_rotl(uint64_t x, unsigned b) { return (x << b) | (x >> (64 - b)); }
static uint64_t sip_le64(const uint8_t* p) { uint64_t v = 0; for (int i = 7; i >= 0; --i) v = (v << 8) | p[i]; return v; }
#define SIPROUND do { v0 += v1; v1 = sip_rotl(v1, 13); v1 ^= v0; v0 = sip_rotl(v0, 32); v2 += v3; v3 = sip_rotl(v3, 16); v3 ^= v2; \
                      v0 += v3; v3 = sip_rotl(v3, 21); v3 ^= v0; v2 += v1; v1 = sip_rotl(v1, 17); v1 ^= v2; v2 = sip_rotl(v2, 32); } while (0)
uint64_t verif_ref_siphash24(uint8_t* k, uint8_t* m, uint64_t len)   /* non-const: matches the IR-derived prototype */
{
    uint64_t k0 = sip_le64(k), k1 = sip_le64(k + 8);
    uint64_t v0 = k0 ^ 0x736f6d6570736575ULL, v1 = k1 ^ 0x646f72616e646f6dULL, v2 = k0 ^ 0x6c7967656e657261ULL, v3 = k1 ^ 0x7465646279746573ULL;
    uint64_t w = len / 8;
    for (uint64_t i = 0; i < w; ++i) { uint64_t mi = sip_le64(m + 8 * i); v3 ^= mi; SIPROUND; SIPROUND; v0 ^= mi; }
    uint64_t b = (len & 0xff) << 56;                      /* final word: remaining bytes, zero padding, length mod 256 in the top byte */
    for (uint64_t i = 0; i < (len & 7); ++i) b |= (uint64_t)m[8 * w + i] << (8 * i);
    v3 ^= b; SIPROUND; SIPROUND; v0 ^= b;
    v2 ^= 0xff; SIPROUND; SIPROUND; SIPROUND; SIPROUND;
    return v0 ^ v1 ^ v2 ^ v3;
}
#ifdef __cplusplus
}
#endif
