// C18: StringView answers every query exactly like std::string_view (DESIGN.md §4 C18). Oracle = the real std::string_view.
#include "verif.hpp"
#include <string_view>
#include <string>
#include <stdexcept>
#include <tlx/container/string_view.hpp>
template class std::basic_string<char>;   // emit the extern-template members into this TU's IR
#ifndef HL
#define HL 3
#endif
#ifndef NL
#define NL 2
#endif
#ifndef GROUP
#define GROUP 0
#endif
typedef tlx::StringView TV; typedef std::string_view SV;
static const size_t NPOS = (size_t)-1;
#ifdef FULLBYTES
static inline char sym_byte() { return (char)nondet_u8(); }
#else
static inline char sym_byte() { static const unsigned char A[5] = {0x00, 'a', 'b', 0x80, 0xFF}; return (char)A[nondet_below(5)]; }
#endif
static inline size_t sym_pos() { static const size_t P[9] = {0, 1, 2, 3, 4, 5, 6, NPOS - 1, NPOS}; return P[nondet_below(9)]; }
static inline int sgn(int x) { return x < 0 ? -1 : (x > 0 ? 1 : 0); }
// result + exception kind of a call: 0 = returned, 1 = std::out_of_range, 2 = anything else
template <typename F> static int run(F f) { try { f(); return 0; } catch (const std::out_of_range&) { return 1; } catch (...) { return 2; } }

HARNESS(h_stringview)
{
    char hay[HL + 2], nee[NL + 2];
    for (unsigned i = 0; i < HL; ++i) hay[i] = sym_byte();
    for (unsigned i = 0; i < NL; ++i) nee[i] = sym_byte();
    hay[HL] = 0; hay[HL + 1] = 'x'; nee[NL] = 0; nee[NL + 1] = 'x';   // NUL after the range: the const char* overloads see the prefix up to the first NUL
    TV t(hay, (size_t)HL), tn(nee, (size_t)NL); SV s(hay, (size_t)HL), sn(nee, (size_t)NL);
    size_t pos = sym_pos(), n = sym_pos(), pos2 = sym_pos(), n2 = sym_pos();
    char c = sym_byte();
#if GROUP == 0   // comparison and relational operators
    CHECK(sgn(t.compare(tn)) == sgn(s.compare(sn)), "compare(view)");
    CHECK((t == tn) == (s == sn), "operator==");
    CHECK((t != tn) == (s != sn), "operator!=");
    CHECK((t < tn) == (s < sn), "operator<");
    CHECK((t > tn) == (s > sn), "operator>");
    CHECK((t <= tn) == (s <= sn), "operator<=");
    CHECK((t >= tn) == (s >= sn), "operator>=");
    { // the overloads taking a std::string on either side answer like the view-view operators
      std::string ns(nee, (size_t)NL);
      CHECK((t == ns) == (s == sn) && (ns == t) == (sn == s) && (t != ns) == (s != sn) && (ns != t) == (sn != s), "operator== / != with std::string");
      CHECK((t < ns) == (s < sn), "operator<(view, std::string)"); CHECK((ns < t) == (sn < s), "operator<(std::string, view)");
      CHECK((t > ns) == (s > sn) && (ns > t) == (sn > s), "operator> with std::string");
      CHECK((t <= ns) == (s <= sn) && (ns <= t) == (sn <= s), "operator<= with std::string");
      CHECK((t >= ns) == (s >= sn) && (ns >= t) == (sn >= s), "operator>= with std::string"); }
    { int r1 = 0, r2 = 0; int e1 = run([&] { r1 = t.compare(pos, n, tn); }), e2 = run([&] { r2 = s.compare(pos, n, sn); });
      CHECK(e1 == e2 && (e1 != 0 || sgn(r1) == sgn(r2)), "compare(pos, n, view): same result or same kind of exception"); }
    { int r1 = 0, r2 = 0; int e1 = run([&] { r1 = t.compare(pos, n, tn, pos2, n2); }), e2 = run([&] { r2 = s.compare(pos, n, sn, pos2, n2); });
      CHECK(e1 == e2 && (e1 != 0 || sgn(r1) == sgn(r2)), "compare(pos1, n1, view, pos2, n2): same result or same kind of exception"); }
    CHECK(sgn(t.compare((const char*)nee)) == sgn(s.compare((const char*)nee)), "compare(const char*)");
    { int r1 = 0, r2 = 0; int e1 = run([&] { r1 = t.compare(pos, n, (const char*)nee); }), e2 = run([&] { r2 = s.compare(pos, n, (const char*)nee); });
      CHECK(e1 == e2 && (e1 != 0 || sgn(r1) == sgn(r2)), "compare(pos, n, const char*)"); }
    if (n2 <= NL) { int r1 = 0, r2 = 0; int e1 = run([&] { r1 = t.compare(pos, n, (const char*)nee, n2); }), e2 = run([&] { r2 = s.compare(pos, n, (const char*)nee, n2); });
      CHECK(e1 == e2 && (e1 != 0 || sgn(r1) == sgn(r2)), "compare(pos, n, const char*, n2)"); }
    CHECK(t.starts_with(tn) == (s.size() >= sn.size() && s.substr(0, sn.size()) == sn), "starts_with(view)");
    CHECK(t.ends_with(tn) == (s.size() >= sn.size() && s.substr(s.size() - sn.size()) == sn), "ends_with(view)");
    CHECK(t.starts_with(c) == (!s.empty() && s.front() == c), "starts_with(char)");
    CHECK(t.ends_with(c) == (!s.empty() && s.back() == c), "ends_with(char)");
#elif GROUP == 1  // find / rfind
    CHECK(t.find(tn, pos) == s.find(sn, pos), "find(view, pos)");
    CHECK(t.find(c, pos) == s.find(c, pos), "find(char, pos)");
    if (n <= NL) CHECK(t.find((const char*)nee, pos, n) == s.find((const char*)nee, pos, n), "find(const char*, pos, n)");
    CHECK(t.find((const char*)nee, pos) == s.find((const char*)nee, pos), "find(const char*, pos)");
    CHECK(t.rfind(tn, pos) == s.rfind(sn, pos), "rfind(view, pos)");
    CHECK(t.rfind(c, pos) == s.rfind(c, pos), "rfind(char, pos)");
    if (n <= NL) CHECK(t.rfind((const char*)nee, pos, n) == s.rfind((const char*)nee, pos, n), "rfind(const char*, pos, n)");
    CHECK(t.rfind((const char*)nee, pos) == s.rfind((const char*)nee, pos), "rfind(const char*, pos)");
#elif GROUP == 2  // find_first_of / find_last_of / find_first_not_of / find_last_not_of
    CHECK(t.find_first_of(tn, pos) == s.find_first_of(sn, pos), "find_first_of(view, pos)");
    CHECK(t.find_first_of(c, pos) == s.find_first_of(c, pos), "find_first_of(char, pos)");
    CHECK(t.find_first_of((const char*)nee, pos) == s.find_first_of((const char*)nee, pos), "find_first_of(const char*, pos)");
    if (n <= NL) CHECK(t.find_first_of((const char*)nee, pos, n) == s.find_first_of((const char*)nee, pos, n), "find_first_of(const char*, pos, n)");
    CHECK(t.find_last_of(tn, pos) == s.find_last_of(sn, pos), "find_last_of(view, pos)");
    CHECK(t.find_last_of(c, pos) == s.find_last_of(c, pos), "find_last_of(char, pos)");
    CHECK(t.find_last_of((const char*)nee, pos) == s.find_last_of((const char*)nee, pos), "find_last_of(const char*, pos)");
    if (n <= NL) CHECK(t.find_last_of((const char*)nee, pos, n) == s.find_last_of((const char*)nee, pos, n), "find_last_of(const char*, pos, n)");
    CHECK(t.find_first_not_of(tn, pos) == s.find_first_not_of(sn, pos), "find_first_not_of(view, pos)");
    CHECK(t.find_first_not_of(c, pos) == s.find_first_not_of(c, pos), "find_first_not_of(char, pos)");
    CHECK(t.find_first_not_of((const char*)nee, pos) == s.find_first_not_of((const char*)nee, pos), "find_first_not_of(const char*, pos)");
    if (n <= NL) CHECK(t.find_first_not_of((const char*)nee, pos, n) == s.find_first_not_of((const char*)nee, pos, n), "find_first_not_of(const char*, pos, n)");
    CHECK(t.find_last_not_of(tn, pos) == s.find_last_not_of(sn, pos), "find_last_not_of(view, pos)");
    CHECK(t.find_last_not_of(c, pos) == s.find_last_not_of(c, pos), "find_last_not_of(char, pos)");
    CHECK(t.find_last_not_of((const char*)nee, pos) == s.find_last_not_of((const char*)nee, pos), "find_last_not_of(const char*, pos)");
    if (n <= NL) CHECK(t.find_last_not_of((const char*)nee, pos, n) == s.find_last_not_of((const char*)nee, pos, n), "find_last_not_of(const char*, pos, n)");
#else            // substr / copy / remove_prefix / remove_suffix / at / front / back / to_string
    { TV r1; SV r2; int e1 = run([&] { r1 = t.substr(pos, n); }), e2 = run([&] { r2 = s.substr(pos, n); });
      CHECK(e1 == e2 && (e1 != 0 || (r1.data() == r2.data() && r1.size() == r2.size())), "substr(pos, n): same range or same kind of exception"); }
    { char b1[HL + 2], b2[HL + 2]; for (unsigned i = 0; i < HL + 2; ++i) b1[i] = b2[i] = 'z';
      size_t cap = n <= HL ? n : HL;   // destination holds HL bytes: std's precondition [dest, dest + min(n, size - pos)) valid
      size_t r1 = 0, r2 = 0; int e1 = run([&] { r1 = t.copy(b1, cap, pos); }), e2 = run([&] { r2 = s.copy(b2, cap, pos); });
      CHECK(e1 == e2 && (e1 != 0 || r1 == r2), "copy(dest, n, pos): same count or same kind of exception");
      for (unsigned i = 0; i < HL + 2; ++i) CHECK(b1[i] == b2[i], "copy(dest, n, pos) copies the same bytes"); }
    if (pos <= HL) { TV a = t; SV b = s; a.remove_prefix(pos); b.remove_prefix(pos); CHECK(a.data() == b.data() && a.size() == b.size(), "remove_prefix(n), n <= size()"); }
    if (pos <= HL) { TV a = t; SV b = s; a.remove_suffix(pos); b.remove_suffix(pos); CHECK(a.data() == b.data() && a.size() == b.size(), "remove_suffix(n), n <= size()"); }
    { char r1 = 0, r2 = 0; int e1 = run([&] { r1 = t.at(pos); }), e2 = run([&] { r2 = s.at(pos); });
      CHECK(e1 == e2 && (e1 != 0 || r1 == r2), "at(pos): same element or same kind of exception"); }
    if (HL > 0) { CHECK(t.front() == s.front() && t.back() == s.back(), "front()/back() on a non-empty view"); }
    if (pos < HL) CHECK(t[pos] == s[pos], "operator[]");
    CHECK(t.size() == s.size() && t.length() == s.length() && t.empty() == s.empty() && t.data() == s.data(), "size/length/empty/data");
    { std::string a = t.to_string(); std::string b(s); CHECK(a.size() == b.size(), "to_string(): same length");
      for (unsigned i = 0; i < HL; ++i) CHECK(a[i] == b[i], "to_string(): same bytes"); }
#endif
    REACH("string view compared");
}
