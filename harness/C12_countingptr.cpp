// C12: CountingPtr destroys its object exactly once, when the last owner lets go (DESIGN.md §4 C12), sequential histories
#include "verif.hpp"
#include <tlx/counting_ptr.hpp>
#include <new>
#include <utility>
#ifndef H
#define H 5
#endif
#define NOBJ 4
#define NH 3
static int g_alive[NOBJ]; static int g_destroyed[NOBJ]; static int g_next = 0;
struct Base : public tlx::ReferenceCounter {
    int id;
    Base() : id(g_next++) { g_alive[id] = 1; }
    Base(const Base& o) : tlx::ReferenceCounter(o), id(g_next++) { CHECK(g_alive[o.id] == 1, "copied object is alive"); g_alive[id] = 1; }
    virtual ~Base() { CHECK(g_alive[id] == 1, "object destroyed at most once"); g_alive[id] = 0; g_destroyed[id]++; }
};
struct Obj : public Base { uint8_t payload = 7; };
typedef tlx::CountingPtr<Obj> P;
typedef tlx::CountingPtr<Base> PB;

static P* h[NH]; static PB* hb;
static Obj* objs[NOBJ];      // raw addresses, only compared, never dereferenced after destruction

static unsigned refs_to(const Base* o)
{
    unsigned n = 0;
    for (unsigned i = 0; i < NH; ++i) if (h[i] && h[i]->get() == o) ++n;
    if (hb && hb->get() == o) ++n;
    return n;
}
static void check_all()
{
    for (int id = 0; id < NOBJ; ++id) {
        if (id >= g_next) continue;
        unsigned n = refs_to(objs[id]);
        if (n > 0) {
            CHECK(g_alive[id] == 1, "an object is never destroyed while a handle remains");
            CHECK(objs[id]->reference_count() == n, "reference count equals the number of handles pointing to the object");
        } else {
            CHECK(g_alive[id] == 0 && g_destroyed[id] == 1, "the object is destroyed exactly once, at the moment its last handle lets go");
        }
    }
}

HARNESS(h_countingptr)
{
    for (unsigned i = 0; i < NH; ++i) h[i] = nullptr;
    hb = nullptr;
    for (unsigned step = 0; step < H; ++step) {
        unsigned op = nondet_below(17), i = nondet_below(NH), j = nondet_below(NH);
        OBS(op * 16 + i * 4 + j);
        switch (op) {
        case 0: if (!h[i] && g_next < NOBJ) { Obj* o = new Obj; objs[o->id] = o; h[i] = new P(o); CHECK(h[i]->get() == o, "construct from raw pointer"); } break;
        case 1: if (!h[i]) { h[i] = new P(); CHECK(h[i]->get() == nullptr, "default handle is empty"); } break;
        case 2: if (!h[i] && h[j]) { h[i] = new P(*h[j]); CHECK(h[i]->get() == h[j]->get(), "copy construction shares the object"); } break;
        case 3: if (!h[i] && h[j]) { Obj* o = h[j]->get(); h[i] = new P(std::move(*h[j])); CHECK(h[i]->get() == o && h[j]->get() == nullptr, "move construction transfers the object"); } break;
        case 4: if (h[i] && h[j]) { Obj* o = h[j]->get(); *h[i] = *h[j]; CHECK(h[i]->get() == o && h[j]->get() == o, "copy assignment (including self and same-object)"); } break;
        case 5: if (h[i] && h[j]) { Obj* o = h[j]->get(); *h[i] = std::move(*h[j]); CHECK(h[i]->get() == o, "move assignment (including self and same-object)"); } break;
        case 6: if (h[i]) { h[i]->reset(); CHECK(h[i]->get() == nullptr, "reset empties the handle"); } break;
        case 7: if (h[i] && h[j]) { Obj* a = h[i]->get(); Obj* b = h[j]->get(); h[i]->swap(*h[j]); CHECK(h[i]->get() == b && h[j]->get() == a, "swap exchanges the objects"); } break;
        case 8: if (h[i] && h[i]->get() && g_next < NOBJ) { int before = g_next; bool uniq = h[i]->unique(); h[i]->unify();
                    if (g_next > before) objs[before] = h[i]->get();
                    CHECK(h[i]->unique(), "after unify the handle is the only owner"); CHECK(uniq == (g_next == before), "unify copies exactly when the object was shared"); } break;
        case 9: if (h[i]) { delete h[i]; h[i] = nullptr; } break;
        case 10: if (!hb && h[j]) { hb = new PB(*h[j]); CHECK(hb->get() == h[j]->get(), "converting copy construction"); } break;
        case 11: if (!hb && h[j]) { Obj* o = h[j]->get(); hb = new PB(std::move(*h[j])); CHECK(hb->get() == o && h[j]->get() == nullptr, "converting move construction"); } break;
        case 12: if (hb && h[j]) { *hb = *h[j]; CHECK(hb->get() == h[j]->get(), "converting copy assignment"); } break;
        case 13: if (hb && h[j]) { Obj* o = h[j]->get(); *hb = std::move(*h[j]); CHECK(hb->get() == o, "converting move assignment"); } break;
        case 14: if (hb) { delete hb; hb = nullptr; } break;
        case 15: if (hb) { hb->reset(); } break;
        default: if (h[i]) { P tmp(*h[i]); CHECK(!tmp.get() || tmp.use_count() == refs_to(tmp.get()) + 1, "a temporary copy counts as a handle"); } break;
        }
        check_all();
    }
    REACH("handle history done");
    for (unsigned i = 0; i < NH; ++i) if (h[i]) { delete h[i]; h[i] = nullptr; }
    if (hb) { delete hb; hb = nullptr; }
    for (int id = 0; id < NOBJ; ++id) if (id < g_next) CHECK(g_alive[id] == 0 && g_destroyed[id] == 1, "every managed object is destroyed exactly once");
}
