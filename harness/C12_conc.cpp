// C12 (concurrent part): handles to one object copied and released by several threads under any interleaving (DESIGN.md §4 C12)
// context switches at every atomic operation of inc_reference / dec_reference (ll2c --conc --yield-atomics)
#include "verif.hpp"
#include <tlx/counting_ptr.hpp>
#ifndef NTHR
#define NTHR 2
#endif
#ifndef NCOPIES
#define NCOPIES 1
#endif
static int g_destroyed = 0, g_alive = 0;
struct Obj : public tlx::ReferenceCounter { int payload = 42; Obj() { g_alive = 1; } ~Obj() { CHECK(g_alive == 1, "object destroyed at most once"); g_alive = 0; ++g_destroyed; } };
typedef tlx::CountingPtr<Obj> P;
static P* shared[NTHR + 1];          // one handle per thread, created by the main thread before the workers start
static unsigned finished_workers = 0;
static void body(void* p)
{
    unsigned id = (unsigned)(uintptr_t)p;
    for (unsigned c = 0; c < NCOPIES; ++c) {
        P copy(*shared[id]);                               // inc_reference
        CHECK(g_alive == 1 && copy->payload == 42, "object is alive while a handle points to it");
    }                                                      // dec_reference
    delete shared[id]; shared[id] = nullptr;               // drop this thread's own handle: the last one to do so destroys the object
    ++finished_workers;
    if (finished_workers < NTHR) CHECK(g_alive == 1 || g_destroyed == 1, "bookkeeping");
}
extern "C" void verif_on_quiescence() { CHECK(false, "CountingPtr threads came to rest blocked"); }
HARNESS(h_countingptr_conc)
{
    Obj* o = new Obj;
    P first(o);
    for (unsigned t = 1; t <= NTHR; ++t) shared[t] = new P(first);
    CHECK(o->reference_count() == NTHR + 1, "reference count equals the number of handles");
    first.reset();
    unsigned ids[NTHR + 1];
    for (unsigned t = 1; t <= NTHR; ++t) ids[t] = verif_thread_spawn(body, (void*)(uintptr_t)t);
    for (unsigned t = 1; t <= NTHR; ++t) verif_thread_join(ids[t]);
    CHECK(g_destroyed == 1 && g_alive == 0, "the object is destroyed exactly once, when the last handle lets go");
    REACH("concurrent release complete");
}
