// C16: RingBuffer is a bounded deque; it and SimpleVector keep element lifetimes exact (DESIGN.md §4 C16)
#include "verif.hpp"
#include <tlx/container/ring_buffer.hpp>
#include <tlx/container/simple_vector.hpp>
#include <utility>
#ifndef CAP
#define CAP 3
#endif
#ifndef H
#define H 4
#endif
#ifndef CAP2
#define CAP2 2
#endif
// ---- lifetime ledger element (DESIGN §3): every construction/destruction is accounted
static int g_live = 0;          // number of Tracked objects currently alive
enum { MAGIC = 0x5A, DEAD = 0xDD };
struct Tracked {
    uint8_t val; uint8_t magic;
#ifdef OWN
    uint8_t* heap;              // heap-owning variant: puts the same facts under CBMC's leak / double-free / use-after-free checks
#endif
    Tracked() : val(0), magic(MAGIC) { born(0); }
    explicit Tracked(uint8_t v) : val(v), magic(MAGIC) { born(v); }
    Tracked(const Tracked& o) : val(o.val), magic(MAGIC) { CHECK(o.magic == MAGIC, "copy source is a live object"); born(o.val); }
    Tracked(Tracked&& o) noexcept : val(o.val), magic(MAGIC) { CHECK(o.magic == MAGIC, "move source is a live object"); born(o.val); }
    Tracked& operator=(const Tracked& o) { CHECK(magic == MAGIC && o.magic == MAGIC, "assignment between live objects"); val = o.val; setheap(o.val); return *this; }
    Tracked& operator=(Tracked&& o) noexcept { CHECK(magic == MAGIC && o.magic == MAGIC, "move-assignment between live objects"); val = o.val; setheap(o.val); return *this; }
    ~Tracked() { CHECK(magic == MAGIC, "destroyed object was alive (no double destruction, no destruction of a never-constructed slot)"); magic = DEAD; --g_live;
#ifdef OWN
        delete heap;
#endif
    }
    void born(uint8_t v) { ++g_live;
#ifdef OWN
        heap = new uint8_t(v);
#endif
        (void)v; }
    void setheap(uint8_t v) {
#ifdef OWN
        *heap = v;
#endif
        (void)v; }
    bool ok(uint8_t v) const {
#ifdef OWN
        if (*heap != v) return false;
#endif
        return magic == MAGIC && val == v; }
};
typedef tlx::RingBuffer<Tracked> RB;

struct Model { uint8_t v[8]; unsigned n; };
static void m_push_back(Model& m, uint8_t x) { m.v[m.n++] = x; }
static void m_push_front(Model& m, uint8_t x) { for (unsigned i = m.n; i > 0; --i) m.v[i] = m.v[i - 1]; m.v[0] = x; m.n++; }
static void m_pop_front(Model& m) { for (unsigned i = 1; i < m.n; ++i) m.v[i - 1] = m.v[i]; m.n--; }
static void m_pop_back(Model& m) { m.n--; }

static void compare(RB& rb, const Model& m, int extra_live)
{
    CHECK(rb.size() == m.n, "size() equals the bounded-deque model");
    CHECK(rb.empty() == (m.n == 0), "empty() equals the model");
    CHECK(g_live == (int)m.n + extra_live, "an element is alive if and only if it is currently stored");
    if (m.n > 0) {
        CHECK(rb.front().ok(m.v[0]), "front() is the model's first element (and alive)");
        CHECK(rb.back().ok(m.v[m.n - 1]), "back() is the model's last element (and alive)");
    }
    for (unsigned i = 0; i < 8; ++i) if (i < m.n) CHECK(rb[i].ok(m.v[i]), "operator[] equals the model (and the element is alive)");
}

HARNESS(h_ringbuffer)
{
    RB* rb = new RB(CAP);
    Model m; m.n = 0;
    CHECK(rb->max_size() == CAP, "max_size()");
    for (unsigned step = 0; step < H; ++step) {
        unsigned op = nondet_below(20);
        uint8_t x = nondet_u8();
        OBS(op);
        switch (op) {
        case 0: if (m.n < rb->max_size()) { Tracked t(x); rb->push_back(t); m_push_back(m, x); compare(*rb, m, 1); } break;
        case 1: if (m.n < rb->max_size()) { Tracked t(x); rb->push_back(std::move(t)); m_push_back(m, x); compare(*rb, m, 1); } break;
        case 2: if (m.n < rb->max_size()) { rb->emplace_back(x); m_push_back(m, x); } break;
        case 3: if (m.n < rb->max_size()) { Tracked t(x); rb->push_front(t); m_push_front(m, x); compare(*rb, m, 1); } break;
        case 4: if (m.n < rb->max_size()) { Tracked t(x); rb->push_front(std::move(t)); m_push_front(m, x); compare(*rb, m, 1); } break;
        case 5: if (m.n < rb->max_size()) { rb->emplace_front(x); m_push_front(m, x); } break;
        case 6: if (m.n > 0) { rb->pop_front(); m_pop_front(m); } break;
        case 7: if (m.n > 0) { rb->pop_back(); m_pop_back(m); } break;
        case 8: rb->clear(); m.n = 0; break;
        case 9: { RB* c = new RB(*rb); compare(*c, m, (int)m.n); CHECK(c->max_size() == rb->max_size(), "copy keeps max_size"); delete rb; rb = c; } break;
        case 10: { RB* c = new RB(std::move(*rb)); compare(*c, m, 0); CHECK(rb->size() == 0, "moved-from buffer is empty"); delete rb; rb = c; } break;
        case 11: { RB* c = new RB(CAP2); if (CAP2 > 0) c->emplace_back(x); *c = *rb; compare(*c, m, (int)m.n); CHECK(c->max_size() == rb->max_size(), "assignment takes max_size"); delete rb; rb = c; } break;
        case 12: { RB* c = new RB(CAP2); if (CAP2 > 0) c->emplace_back(x); *c = std::move(*rb); compare(*c, m, 0); CHECK(rb->size() == 0, "moved-from buffer is empty"); delete rb; rb = c; } break;
        case 13: { rb->deallocate(); m.n = 0; CHECK(g_live == 0, "deallocate destroys every element"); rb->allocate(CAP); } break;
        case 14: { RB& self = *rb; *rb = self; } break;   // self-assignment
        case 15: { RB tmp(std::move(*rb)); *rb = tmp; compare(*rb, m, (int)m.n); CHECK(rb->max_size() == tmp.max_size(), "copy-assignment into a moved-from buffer"); } break;
        case 16: { RB tmp(std::move(*rb)); *rb = std::move(tmp); } break;   // move-assignment into a moved-from buffer
        case 17: { RB src(*rb); rb->deallocate(); CHECK(g_live == src.size(), "deallocate destroys every element of this buffer");      // copy-assignment into a deallocated buffer (equal capacities)
                   *rb = src; compare(*rb, m, (int)m.n); CHECK(rb->max_size() == src.max_size(), "copy-assignment into a deallocated buffer"); } break;
        case 18: { RB* c = new RB(std::move(*rb)); compare(*c, m, 0);      // a moved-from buffer is empty and self-consistent: if it reports room, pushing works
                   if (rb->size() < rb->max_size()) { rb->emplace_back(x); CHECK(rb->size() == 1 && rb->back().ok(x), "moved-from buffer that reports free capacity accepts an element"); }
                   delete rb; rb = c; } break;
        default: { rb->deallocate(); m.n = 0; rb->allocate(CAP2); CHECK(rb->max_size() == CAP2, "allocate sets max_size");     // re-allocate with a different size, use it, then restore
                   if (CAP2 > 0) { rb->emplace_back(x); CHECK(rb->size() == 1 && rb->front().ok(x), "buffer usable after deallocate + allocate"); rb->pop_front(); }
                   rb->deallocate(); rb->allocate(CAP); } break;
        }
        compare(*rb, m, 0);
    }
    REACH("ring buffer history done");
    delete rb;
    CHECK(g_live == 0, "every element is destroyed exactly once by the end of the container's life");
}

// ---------------------------------------------------------------- SimpleVector
#ifndef SVMODE
#define SVMODE Normal
#endif
enum { SV_NORMAL = (int)tlx::SimpleVectorMode::SVMODE == (int)tlx::SimpleVectorMode::Normal };
// the NoInit* modes never construct elements (documented): they are exercised with a trivial element type and checked for
// sizes, storage hand-over and double frees / leaks only; the lifetime ledger applies to the default mode
struct Pod { uint8_t val; uint8_t magic; bool ok(uint8_t v) const { return val == v; } Pod() = default; explicit Pod(uint8_t v) : val(v), magic(MAGIC) {} };
#include <type_traits>
typedef std::conditional<SV_NORMAL, Tracked, Pod>::type SVElem;
typedef tlx::SimpleVector<SVElem, tlx::SimpleVectorMode::SVMODE> SV;
HARNESS(h_simplevector)
{
    unsigned n0 = nondet_below(4);
    SV* a = new SV(n0); SV* b = new SV(2);
    unsigned na = n0, nb = 2;
    if (SV_NORMAL) CHECK(g_live == (int)(na + nb), "construction creates exactly size() elements");
    for (unsigned step = 0; step < H; ++step) {
        unsigned op = nondet_below(7); uint8_t x = nondet_u8(); OBS(op);
        switch (op) {
        case 0: { unsigned m_ = nondet_below(4); {
                    uint8_t keep[4]; for (unsigned i = 0; i < 4; ++i) if (i < na) keep[i] = (*a)[i].val;
                    a->resize(m_);
                    if (SV_NORMAL) for (unsigned i = 0; i < 4; ++i) if (i < na && i < m_) CHECK((*a)[i].ok(keep[i]), "resize keeps the common prefix");
                    na = m_; } } break;
        case 1: { SV* c = new SV(std::move(*a)); CHECK(a->size() == 0 && c->size() == na, "move construction transfers the elements"); delete a; a = c; } break;
        case 2: { *b = std::move(*a); CHECK(a->size() == 0 && b->size() == na, "move assignment transfers the elements"); nb = na; na = 0; } break;
        case 3: { a->swap(*b); unsigned t = na; na = nb; nb = t; } break;
        case 4: { a->destroy(); na = 0; CHECK(a->size() == 0, "destroy empties the vector"); } break;
        case 5: if (SV_NORMAL) { SVElem t(x); a->fill(t); for (unsigned i = 0; i < 4; ++i) if (i < na) CHECK((*a)[i].ok(x), "fill assigns every element"); } break;
        default: { SV& self = *a; *a = std::move(self); } break;
        }
        CHECK(a->size() == na && b->size() == nb, "size() tracks the model");
        if (SV_NORMAL) {
            CHECK(g_live == (int)(na + nb), "SimpleVector (default mode): an element is alive if and only if it is stored");
            for (unsigned i = 0; i < 4; ++i) { if (i < na) CHECK((*a)[i].magic == MAGIC, "stored element is alive"); if (i < nb) CHECK((*b)[i].magic == MAGIC, "stored element is alive"); }
        }
    }
    REACH("simple vector history done");
    delete a; delete b;
    if (SV_NORMAL) CHECK(g_live == 0, "every element destroyed exactly once");
}
