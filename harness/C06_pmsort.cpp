// C06: parallel_mergesort sorts (stably when asked) for every size and thread count (DESIGN.md §4 C06)
// worker threads cross the real ThreadBarrierMutex (shim mutex / condition variable); threads are step functions under the symbolic scheduler.
#include "verif.hpp"
#include <tlx/sort/parallel_mergesort.hpp>
#ifndef NEL
#define NEL 3
#endif
#ifndef NTH
#define NTH 2
#endif
#ifndef SPLIT
#define SPLIT MWMSA_EXACT
#endif
#ifndef STABLE
#define STABLE 1
#endif
#ifndef KEYMASK
#define KEYMASK 3
#endif
static int g_live = 0;
enum { MAGIC = 0x5A, DEAD = 0xDD };
struct T {   // lifetime-ledger element (see C16): every temporary copy the sort creates must be destroyed before it returns
    uint8_t key, id, magic;
    T() : key(0), id(255), magic(MAGIC) { ++g_live; }
    T(uint8_t k, uint8_t i) : key(k), id(i), magic(MAGIC) { ++g_live; }
    T(const T& o) : key(o.key), id(o.id), magic(MAGIC) { CHECK(o.magic == MAGIC, "copy source is alive"); ++g_live; }
    T(T&& o) noexcept : key(o.key), id(o.id), magic(MAGIC) { CHECK(o.magic == MAGIC, "move source is alive"); ++g_live; }
    T& operator=(const T& o) { CHECK(magic == MAGIC && o.magic == MAGIC, "assignment between live objects"); key = o.key; id = o.id; return *this; }
    T& operator=(T&& o) noexcept { CHECK(magic == MAGIC && o.magic == MAGIC, "move assignment between live objects"); key = o.key; id = o.id; return *this; }
    ~T() { CHECK(magic == MAGIC, "destroyed object was alive"); magic = DEAD; --g_live; }
};
struct Cmp { bool operator()(const T& a, const T& b) const { return a.key < b.key; } };
extern "C" void verif_on_quiescence() { CHECK(false, "parallel mergesort: threads came to rest blocked (deadlock)"); }

HARNESS(h_pmsort)
{
    static T a[NEL + 1]; uint8_t in[NEL + 1];
    for (unsigned i = 0; i < NEL; ++i) { a[i].key = in[i] = nondet_u8() & KEYMASK; a[i].id = (uint8_t)i; }
    int live0 = g_live;
    tlx::parallel_multiway_merge_oversampling = 1;
#if STABLE
    tlx::stable_parallel_mergesort(a, a + NEL, Cmp(), (size_t)NTH, tlx::SPLIT);
#else
    tlx::parallel_mergesort(a, a + NEL, Cmp(), (size_t)NTH, tlx::SPLIT);
#endif
    uint32_t seen = 0;
    for (unsigned i = 0; i < NEL; ++i) {
        CHECK(a[i].magic == MAGIC && a[i].id < NEL && !(seen >> a[i].id & 1), "result is a permutation of the input (no element lost or duplicated)");
        seen |= 1u << a[i].id;
        if (a[i].id < NEL) CHECK(a[i].key == in[a[i].id], "every element keeps its own key");
        if (i + 1 < NEL) { CHECK(!(a[i + 1].key < a[i].key), "result is in non-decreasing comparator order");
#if STABLE
            if (a[i + 1].key == a[i].key) CHECK(a[i].id < a[i + 1].id, "stable variant: equal keys keep their input order (as std::stable_sort)");
#endif
        }
    }
#ifndef KF_TEMP_LEAK
    CHECK(g_live == live0, "every temporary copy created by the sort is destroyed before it returns");
#endif
    REACH("parallel mergesort checked");
}
