// force-included BEFORE any tlx header: real std headers first, then shadow namespace tlx::std
#include <mutex>
#include <condition_variable>
#include <thread>
#include <atomic>
#include <cstddef>
#include <functional>
#include <tuple>
#include <type_traits>
extern "C" {
void verif_mutex_lock(void* m); void verif_mutex_unlock(void* m);
void verif_cv_wait(void* cv, void* m); void verif_cv_notify(void* cv, bool all);
unsigned verif_thread_spawn(void (*fn)(void*), void* arg); void verif_thread_join(unsigned id);
void verif_yield();
}
namespace tlx { namespace std {
using namespace ::std;
class mutex { public: mutex() noexcept {} mutex(const mutex&) = delete; void lock() { verif_mutex_lock(this); } void unlock() { verif_mutex_unlock(this); } char pad_ = 0; };
template <typename M> class unique_lock {
public:
    explicit unique_lock(M& m) : m_(&m), owns_(true) { m_->lock(); }
    ~unique_lock() { if (owns_) m_->unlock(); }
    unique_lock(const unique_lock&) = delete;
    void lock() { m_->lock(); owns_ = true; } void unlock() { m_->unlock(); owns_ = false; }
    M* mutex() const { return m_; } bool owns_lock() const { return owns_; }
private: M* m_; bool owns_;
};
class condition_variable { public:
    condition_variable() noexcept {} condition_variable(const condition_variable&) = delete;
    void notify_one() noexcept { verif_cv_notify(this, false); } void notify_all() noexcept { verif_cv_notify(this, true); }
    void wait(unique_lock<mutex>& l) { verif_cv_wait(this, l.mutex()); }
    template <typename P> void wait(unique_lock<mutex>& l, P p) { while (!p()) wait(l); }
    char pad_ = 0; };
class thread { public:
    thread() noexcept : id_(0) {} thread(const thread&) = delete;
    thread(thread&& o) noexcept : id_(o.id_) { o.id_ = 0; }
    thread& operator=(thread&& o) noexcept { id_ = o.id_; o.id_ = 0; return *this; }
    // member-function threads (tlx::ThreadPool): the closure lives in a static typed pool, so that the member pointer (function address and
    // this-adjustment) is constant-propagated by the model checker instead of being re-read from an untyped heap block
    template <typename C, typename... P, typename... A> explicit thread(void (C::*mf)(P...), C* obj, A&&... a) {
        struct Clo { void (C::*mf)(P...); C* obj; ::std::tuple<typename ::std::decay<A>::type...> args; };
        static Clo pool[4]; static unsigned used = 0;
        Clo* c = &pool[used++ & 3]; c->mf = mf; c->obj = obj; c->args = ::std::tuple<typename ::std::decay<A>::type...>(a...);
        id_ = verif_thread_spawn([](void* p) { Clo* cc = static_cast<Clo*>(p); ::std::apply([cc](auto&... x) { (cc->obj->*(cc->mf))(x...); }, cc->args); }, c); }
    template <typename F, typename... A> explicit thread(F&& f, A&&... a) {
        auto* c = new auto([f, a...]() mutable { ::std::invoke(f, a...); });
        using C = typename ::std::remove_pointer<decltype(c)>::type;
        id_ = verif_thread_spawn([](void* p) { C* cc = static_cast<C*>(p); (*cc)(); delete cc; }, c); }
    void join() { verif_thread_join(id_); id_ = 0; } bool joinable() const { return id_ != 0; }
    static unsigned hardware_concurrency() noexcept { return 2; }
private: unsigned id_; };
namespace this_thread { inline void yield() noexcept { verif_yield(); } }
}} // namespace tlx::std
// harness-side helpers for the sequentialised runs
extern "C" void verif_on_quiescence();   // called by the scheduler when no thread is enabled but not all have finished
