/* ---- engine/rt/sched.c: scheduler for the lazily sequentialised threads (DESIGN.md 1.3).  Appended to the generated C.
   Threads are resumable step functions; a step runs from one visible operation to the next.  The scheduler picks, in every round,
   a nondeterministic ENABLED thread.  No spurious wake-ups: every explored execution is a legal one.
   deadlock / lost wake-up  =  no thread enabled although some thread has not finished            -> failing assertion
   bound check              =  the round budget VERIF_ROUNDS must suffice for every schedule     -> failing assertion (like an unwinding assertion) */
#ifndef VERIF_ROUNDS
#define VERIF_ROUNDS 24
#endif
enum { VP_RUN = 0, VP_LOCK, VP_WAITCV, VP_JOIN, VP_EPOCH };
struct verif_thr { _Bool used, started, finished; uint8_t pend; void* obj; uint32_t joinid; void* entry; void* arg; void* last_load; uint32_t last_epoch; uint32_t last_site; _Bool has_load; };
static struct verif_thr verif_th[VERIF_NT];
static void* verif_waiting_on[VERIF_NT];      /* condition variable the thread is blocked on (0 = not waiting) */
uint32_t verif_cur = 0; uint32_t verif_atomic_epoch = 0; uint32_t verif_steps = 0;
uint32_t verif_deadlock_seen = 0;

void verif_pend_lock(void* m) { verif_th[verif_cur].pend = VP_LOCK; verif_th[verif_cur].obj = m; verif_th[verif_cur].has_load = 0; }
void verif_pend_waitcv(void* cv) { verif_th[verif_cur].pend = VP_WAITCV; verif_th[verif_cur].obj = cv; }
void verif_pend_join(uint32_t id) { verif_th[verif_cur].pend = VP_JOIN; verif_th[verif_cur].joinid = id; }
void verif_pend_run(void) { verif_th[verif_cur].pend = VP_RUN; verif_th[verif_cur].has_load = 0; }
/* atomic load as the next visible operation: if this thread's previous visible operation was a load of the same location and no atomic write happened since, the load
   would return the same value (stutter): wait for the atomic-write epoch to change */
void verif_pend_load(void* a, uint32_t site) { struct verif_thr* t = &verif_th[verif_cur];
    if (t->has_load && t->last_load == a && t->last_site == site && t->last_epoch == verif_atomic_epoch) t->pend = VP_EPOCH; else t->pend = VP_RUN; t->obj = a; }
void verif_did_load(void* a, uint32_t site) { struct verif_thr* t = &verif_th[verif_cur]; t->has_load = 1; t->last_load = a; t->last_site = site; t->last_epoch = verif_atomic_epoch; }
/* the shim mutex / condition_variable objects are one byte (pad_): for a mutex it holds the locked flag */
void verif_do_lock(void* m) { __CPROVER_assert(*(uint8_t*)m == 0, "scheduler: lock acquired only when free"); *(uint8_t*)m = 1; }
void verif_do_unlock(void* m) { __CPROVER_assert(*(uint8_t*)m == 1, "unlock of a mutex that is not locked"); *(uint8_t*)m = 0; }
void verif_mutex_unlock(uint8_t* m) { verif_do_unlock(m); }
void verif_cv_enqueue(void* cv) { verif_waiting_on[verif_cur] = cv; }
void verif_cv_notify(uint8_t* cv, _Bool all)
{
    if (all) { for (uint32_t i = 0; i < VERIF_NT; ++i) if (verif_waiting_on[i] == (void*)cv) verif_waiting_on[i] = 0; return; }
    _Bool any = 0; for (uint32_t i = 0; i < VERIF_NT; ++i) if (verif_waiting_on[i] == (void*)cv) any = 1;
    if (!any) return;
    uint32_t k = nondet_u32(); __CPROVER_assume(k < VERIF_NT); __CPROVER_assume(verif_waiting_on[k] == (void*)cv);   /* notify_one wakes an arbitrary waiter */
    verif_waiting_on[k] = 0;
}
uint32_t verif_thread_spawn(void (*fn)(uint8_t*), uint8_t* arg)
{
    for (uint32_t i = 1; i < VERIF_NT; ++i) if (!verif_th[i].used) {
        verif_th[i].used = 1; verif_th[i].started = 0; verif_th[i].finished = 0; verif_th[i].pend = VP_RUN; verif_th[i].entry = (void*)fn; verif_th[i].arg = arg; return i; }
    __CPROVER_assert(0, "modelling bound: more threads than VERIF_NT"); __CPROVER_assume(0); return 0;
}
_Bool verif_is_blocked(uint32_t t) { return verif_th[t].used && !verif_th[t].finished; }
static _Bool verif_enabled(uint32_t t)
{
    if (!verif_th[t].used || verif_th[t].finished) return 0;
    if (verif_th[t].pend == VP_LOCK) return *(uint8_t*)verif_th[t].obj == 0;
    if (verif_th[t].pend == VP_WAITCV) return verif_waiting_on[t] == 0;
    if (verif_th[t].pend == VP_JOIN) return verif_th[verif_th[t].joinid].finished;
    if (verif_th[t].pend == VP_EPOCH) return verif_th[t].last_epoch != verif_atomic_epoch;
    return 1;
}
void verif_on_quiescence(void); void verif_thread_init(void* fn, void* arg); int verif_thread_step(void* fn, void* arg); int verif_main_step(void);
void verif_sched_main(void)
{
    verif_th[0].used = 1; verif_th[0].started = 1; verif_th[0].pend = VP_RUN;
    for (uint32_t r = 0; r < VERIF_ROUNDS; ++r) {
        _Bool any = 0; for (uint32_t t = 0; t < VERIF_NT; ++t) any = any || verif_enabled(t);
        if (!any) break;
        uint32_t t = nondet_u32(); __CPROVER_assume(t < VERIF_NT); __CPROVER_assume(verif_enabled(t));
        ++verif_steps;
        for (uint32_t k = 0; k < VERIF_NT; ++k) {          /* the thread index is concrete inside each arm, so frame accesses are constant-indexed */
            if (t != k) continue;
            if (!verif_enabled(k)) continue;      /* lets symbolic execution prune arms of threads that cannot run (e.g. not yet spawned) */
            verif_cur = k;
            int done;
            if (k == 0) done = verif_main_step();
            else { if (!verif_th[k].started) { verif_th[k].started = 1; verif_thread_init(verif_th[k].entry, verif_th[k].arg); } done = verif_thread_step(verif_th[k].entry, verif_th[k].arg); }
            if (done) verif_th[k].finished = 1;
        }
    }
    _Bool any = 0, unfinished = 0;
    for (uint32_t t = 0; t < VERIF_NT; ++t) { any = any || verif_enabled(t); if (verif_th[t].used && !verif_th[t].finished) unfinished = 1; }
    __CPROVER_assert(!any, "scheduler bound: VERIF_ROUNDS suffices for every schedule (no thread still runnable at the end)");
    if (!any && unfinished) verif_on_quiescence();   /* the harness decides whether resting with blocked threads is legitimate (e.g. a semaphore waiter whose request is not covered) */
}
