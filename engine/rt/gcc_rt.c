/* gcc runtime for the *generated C* (translator validation / concrete re-run): same protocol as native_rt.cpp */
#include <stdio.h>
#include <stdlib.h>
#include <stdint.h>
#include <string.h>
static unsigned long long vals[65536]; static int nv = 0, idx = 0;
static unsigned long long rng = 0; static int use_rng = 0; static unsigned long long obs = 1469598103934665603ULL;
static unsigned small_mask = 0;
static unsigned long long nextv(void) {
    if (use_rng) { rng ^= rng << 13; rng ^= rng >> 7; rng ^= rng << 17;
        unsigned long long v = rng * 0x2545F4914F6CDD1DULL;
        if (small_mask) { unsigned sel = (unsigned)(v >> 60); if (sel < 12) return (v >> 8) & small_mask; }
        return v; }
    return idx < nv ? vals[idx++] : 0;
}
uint8_t nondet_u8(void) { return (uint8_t)nextv(); }
uint16_t nondet_u16(void) { return (uint16_t)nextv(); }
uint32_t nondet_u32(void) { return (uint32_t)nextv(); }
uint64_t nondet_u64(void) { return (uint64_t)nextv(); }
void verif_observe(uint64_t v) { obs = (obs ^ v) * 1099511628211ULL; }
void __CPROVER_assume(int c) { if (!c) { printf("ASSUME-FALSE\n"); fflush(stdout); _Exit(0); } }
void verif_gcc_assert(int c, const char* m) { if (!c) { printf("ASSERT-FAIL: %s\n", m); fflush(stdout); _Exit(0); } }
void VERIF_ENTRY(void);
int main(int argc, char** argv) {
    if (argc >= 3 && !strcmp(argv[1], "--seed")) { use_rng = 1; rng = strtoull(argv[2], 0, 10) * 0x9E3779B97F4A7C15ULL + 0x1234567ULL; if (!rng) rng = 1;
        if (argc >= 4) small_mask = (unsigned)strtoul(argv[3], 0, 10); }
    else if (argc >= 2) { FILE* f = fopen(argv[1], "r"); if (!f) { perror("open"); return 3; }
        unsigned long long v; while (nv < 65536 && fscanf(f, "%llu", &v) == 1) vals[nv++] = v; fclose(f); }
    VERIF_ENTRY();
    printf("PASS obs=%016llx\n", obs); fflush(stdout);
    _Exit(0);
}
