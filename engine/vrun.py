#!/usr/bin/env python3
"""vrun: query runner for the solver-based checks (DESIGN.md §1.4/1.5).

 real tlx code + harness --clang++-14--> LLVM IR --ll2c--> C --cbmc--> UNSAT (holds within bounds) | SAT (counterexample)
 counterexample --> inputs from --trace --> native g++ build of the same harness against /repo --> reported only if it reproduces
"""
import os, re, sys, json, time, shutil, hashlib, subprocess, tempfile, threading, resource
from concurrent.futures import ThreadPoolExecutor

VERIF = os.path.dirname(os.path.dirname(os.path.abspath(__file__)))
REPO = os.environ.get('VERIF_REPO', '/repo')
ENGINE = os.path.join(VERIF, 'engine')
HARNESS = os.path.join(VERIF, 'harness')
CACHE = os.path.join(VERIF, 'cache', 'unwind.json')
GUARD = 'TLX_VERIF'

CLANG = ['clang++-14', '-std=c++17', '-I' + REPO, '-I' + HARNESS, '-D' + GUARD, '-O1', '-ffp-contract=off', '-fno-vectorize',
         '-fno-slp-vectorize', '-fno-unroll-loops', '-S', '-emit-llvm', '-Wno-everything']
GXX = ['g++', '-std=c++17', '-I' + REPO, '-I' + HARNESS, '-D' + GUARD, '-O1', '-g', '-fsanitize=address,undefined',
       '-fno-sanitize-recover=undefined', '-fno-sanitize=alignment', '-fno-lifetime-dse', '-w', '-pthread']
CBMC_BASE = ['--no-malloc-may-fail', '--unwinding-assertions', '--drop-unused-functions', '--no-signed-overflow-check',
             '--no-undefined-shift-check']
NOCHECK = ['--no-assertions', '--no-pointer-check', '--no-bounds-check', '--no-div-by-zero-check',
           '--no-pointer-primitive-check']

_cache_lock = threading.Lock()
_print_lock = threading.Lock()


def log(*a):
    with _print_lock:
        print(*a, flush=True)


def sh(cmd, timeout=None, cwd=None, mem_gb=None, env=None):
    """run, return (rc, out, wall, maxrss_kb). rc -9 on timeout."""
    t0 = time.time()

    def lim():
        os.setsid()
        if mem_gb:
            b = int(mem_gb * (1 << 30))
            resource.setrlimit(resource.RLIMIT_AS, (b, b))
    try:
        p = subprocess.Popen(cmd, stdout=subprocess.PIPE, stderr=subprocess.STDOUT, cwd=cwd, preexec_fn=lim, env=env)
        try:
            out, _ = p.communicate(timeout=timeout)
            rc = p.returncode
        except subprocess.TimeoutExpired:
            try:
                os.killpg(p.pid, 9)
            except Exception:
                pass
            out, _ = p.communicate()
            rc = -9
    except FileNotFoundError as e:
        return 127, str(e), 0.0, 0
    ru = resource.getrusage(resource.RUSAGE_CHILDREN)
    return rc, out.decode('utf-8', 'replace'), time.time() - t0, ru.ru_maxrss


class Query:
    def __init__(self, name, src, entry, desc, defs=(), link=(), ll2c=(), extra_c=(), cbmc=(), unwind=2, max_unwind=96,
                 timeout=600, mem_gb=24, objbits=10, witness=True, validate=24, small_mask=0, clang=(), tiers=('quick', 'thorough'),
                 stubs=(), assumptions=(), native_extra=(), weight=1, kf_defs=(), expect_fail_label=None, unwindset=None,
                 native_defs=(), solver=(), conc=False, nt=3, rounds=24, yield_atomics=False, recursion=0):
        self.name = name; self.src = src; self.entry = entry; self.desc = desc
        self.defs = list(defs); self.link = list(link); self.ll2c = list(ll2c); self.extra_c = list(extra_c)
        self.cbmc = list(cbmc); self.unwind = unwind; self.max_unwind = max_unwind; self.timeout = timeout
        self.mem_gb = mem_gb; self.objbits = objbits; self.witness = witness; self.validate = validate
        self.small_mask = small_mask; self.clang = list(clang); self.tiers = tiers; self.stubs = list(stubs)
        self.assumptions = list(assumptions); self.native_extra = list(native_extra); self.weight = weight
        self.kf_defs = list(kf_defs); self.expect_fail_label = expect_fail_label
        self.unwindset = dict(unwindset or {}); self.native_defs = list(native_defs); self.solver = list(solver)
        self.conc = conc; self.nt = nt; self.rounds = rounds; self.yield_atomics = yield_atomics
        self.recursion = recursion   # initial CBMC recursion bound for functions on a call cycle (raised by the tuner like a loop bound when its unwinding assertion fails)


class SmtQuery:
    """loop-free property function translated by engine/ll2smt.py and decided by SMT solvers (Int with explicit wrap-around / Real)"""
    def __init__(self, name, src, function, desc, kind='int', ctype='uint32_t', defs=(), tiers=('quick', 'thorough'), timeout=120, weight=1, kf_defs=(), expect_fail_label=None, assumptions=()):
        self.name = name; self.src = src; self.function = function; self.desc = desc; self.kind = kind; self.ctype = ctype; self.defs = list(defs)
        self.tiers = tiers; self.timeout = timeout; self.weight = weight; self.kf_defs = list(kf_defs); self.expect_fail_label = expect_fail_label
        self.assumptions = list(assumptions); self.smt = True; self.witness = False; self.validate = 0


SMT_SOLVERS = [('z3-new', ['z3-new']), ('z3', ['z3']), ('cvc5', ['cvc5', '--nl-ext-tplanes'])]


def load_cache():
    try:
        return json.load(open(CACHE))
    except Exception:
        return {}


def save_cache(key, val):
    if REPO != '/repo' or os.environ.get('VERIF_NO_CACHE_WRITE'):
        return   # runs against scratch worktrees (seeded changes) never touch the committed bound cache
    with _cache_lock:
        c = load_cache()
        c[key] = val
        os.makedirs(os.path.dirname(CACHE), exist_ok=True)
        tmp = CACHE + '.tmp%d' % os.getpid()
        json.dump(c, open(tmp, 'w'), indent=0, sort_keys=True)
        os.replace(tmp, CACHE)


RES_RE = re.compile(r'^\[([^\]]+)\]\s+(?:line (\d+)\s+)?(.*): (SUCCESS|FAILURE|ERROR|UNKNOWN)\s*$', re.M)


def parse_cbmc(out):
    res = []
    for m in RES_RE.finditer(out):
        res.append(dict(pid=m.group(1), line=m.group(2), desc=m.group(3), status=m.group(4)))
    st = {}
    m = re.search(r'size of program expression: (\d+) steps', out)
    if m: st['steps'] = int(m.group(1))
    m = re.search(r'Generated (\d+) VCC\(s\), (\d+) remaining', out)
    if m: st['vccs'] = int(m.group(1)); st['vccs_remaining'] = int(m.group(2))
    vs = re.findall(r'(\d+) variables, (\d+) clauses', out)
    if vs: st['variables'] = max(int(a) for a, b in vs); st['clauses'] = max(int(b) for a, b in vs)
    ts = re.findall(r'Runtime decision procedure: ([0-9.]+)s', out)
    if ts: st['solver_s'] = round(sum(float(x) for x in ts), 2)
    ts = re.findall(r'Runtime Symex: ([0-9.]+)s', out)
    if ts: st['symex_s'] = round(sum(float(x) for x in ts), 2)
    if 'VERIFICATION SUCCESSFUL' in out: st['verdict'] = 'SUCCESSFUL'
    elif 'VERIFICATION FAILED' in out: st['verdict'] = 'FAILED'
    else: st['verdict'] = 'NONE'
    return res, st


def is_unwind(r):
    return '.unwind.' in r['pid'] or '.recursion' in r['pid'] or 'unwinding assertion' in r['desc'] or 'recursion unwinding' in r['desc']


def unwind_key(r):
    m = re.match(r'(.+)\.unwind\.(\d+)$', r['pid'])
    if m: return '%s.%s' % (m.group(1), m.group(2))
    m = re.match(r'(.+)\.recursion(?:\.\d+)?$', r['pid'])
    if m: return m.group(1)
    return None


def trace_inputs(out, pid):
    """nondet_* return values in call order for the trace of property pid"""
    i = out.find('Trace for %s:' % pid)
    if i < 0:
        i = out.find('Counterexample:')
        if i < 0: return None
    j = out.find('\nTrace for ', i + 10)
    seg = out[i:j if j > 0 else len(out)]
    vals = []
    for m in re.finditer(r'^\s+verif_in_u(?:8|16|32|64)=(-?\d+)', seg, re.M):
        v = int(m.group(1))
        if v < 0: v += 1 << 64
        vals.append(v)
    return vals


class Runner:
    def __init__(self, prop, tier, seed, jobs=16, keep=False):
        self.prop = prop; self.tier = tier; self.seed = seed; self.jobs = jobs; self.keep = keep
        self.tmp = tempfile.mkdtemp(prefix='verif-%s-' % prop)
        self.results = []
        self.t0 = time.time()

    def cleanup(self):
        if not self.keep:
            shutil.rmtree(self.tmp, ignore_errors=True)

    # ------------------------------------------------------------------ build steps
    def build_ir(self, q, d, witness):
        tag = 'w' if witness else 'q'
        defs = ['-D' + x for x in q.defs + q.kf_defs] + (['-DWITNESS'] if witness else [])
        lls = []
        hl = os.path.join(d, tag + '_h.ll')
        cl = CLANG + q.clang + (['-include', os.path.join(ENGINE, 'rt', 'shim_std.hpp')] if q.conc else [])
        rc, out, _, _ = sh(cl + defs + [os.path.join(HARNESS, q.src), '-o', hl], timeout=300)
        if rc != 0: raise RuntimeError('clang failed on harness %s:\n%s' % (q.src, out[-3000:]))
        lls.append(hl)
        for k, rel in enumerate(q.link):
            ol = os.path.join(d, '%s_l%d.ll' % (tag, k))
            rc, out, _, _ = sh(cl + defs + [os.path.join(REPO, rel), '-o', ol], timeout=300)
            if rc != 0: raise RuntimeError('clang failed on %s:\n%s' % (rel, out[-3000:]))
            lls.append(ol)
        al = os.path.join(d, tag + '_all.ll')
        if len(lls) > 1:
            rc, out, _, _ = sh(['llvm-link-14', '-S', '-o', al] + lls, timeout=120)
            if rc != 0: raise RuntimeError('llvm-link failed:\n' + out[-3000:])
        else:
            al = hl
        cf = os.path.join(d, tag + '.c')
        cmd = [sys.executable, os.path.join(ENGINE, 'll2c.py'), al, '-o', cf, '--entry', q.entry, '--dispatch', 'auto'] + q.ll2c
        for s_ in q.stubs: cmd += ['--stub', s_]
        if q.conc: cmd += ['--conc', '--entry', 'verif_on_quiescence'] + (['--yield-atomics'] if q.yield_atomics else [])
        rc, out, _, _ = sh(cmd, timeout=600)
        if rc != 0: raise RuntimeError('ll2c failed:\n' + out[-3000:])
        if q.conc:
            txt = open(cf).read()
            open(cf, 'w').write('#define VERIF_NT %d\n#define VERIF_ROUNDS %d\n' % (q.nt, q.rounds) + txt + '\n' + open(os.path.join(ENGINE, 'rt', 'sched.c')).read())
        if q.extra_c:
            with open(cf, 'a') as f:
                for e in q.extra_c:
                    f.write('\n/* ---- extra_c: %s ---- */\n' % e)
                    f.write(open(os.path.join(HARNESS, e)).read())
        return cf, al

    def encoded_functions(self, cfile):
        txt = open(cfile).read()
        fns = sorted(set(re.findall(r'^[A-Za-z_][A-Za-z0-9_ \*]*\b(f_[A-Za-z0-9_]+)\(', txt, re.M)))
        return fns, hashlib.sha256(txt.encode()).hexdigest()[:16]

    def cbmc_cmd(self, q, cfile, bounds, default, extra):
        us = ','.join('%s:%d' % kv for kv in sorted(bounds.items()))
        cmd = ['cbmc', cfile, '--function', ('verif_sched_main' if q.conc else 'f_' + q.entry), '--object-bits', str(q.objbits), '--unwind', str(default), '--verbosity', '8'] + CBMC_BASE + q.cbmc + q.solver + extra
        if us: cmd += ['--unwindset', us]
        return cmd

    def tune_and_run(self, q, cfile, rec, keysuffix='', final_flags=('--trace',), init=None):
        key = '%s/%s%s' % (self.prop, q.name, keysuffix)
        cache = load_cache().get(key)
        bounds = dict(q.unwindset)
        default = q.unwind
        if q.recursion:
            try:
                mrec = re.search(r'/\* VERIF-RECURSIVE: (.*?) \*/', open(cfile).read())
                for fn in (mrec.group(1).split() if mrec else []): bounds.setdefault(fn, q.recursion)
            except OSError: pass
        deadline = time.time() + q.timeout
        tuned = False
        if init:     # the vacuity twin starts from the bounds found for the main query (same code without the assertions)
            bounds.update(init[0]); default = max(default, init[1])
        if cache:
            bounds.update(cache.get('bounds', {})); default = cache.get('default', default)
            tuned = True
        rec['tune_rounds'] = 0
        cbmc_calls = 0
        while True:
            left = deadline - time.time()
            if left <= 1:
                rec['verdict'] = 'TIMEOUT'; return None, None
            if not tuned:
                cmd = self.cbmc_cmd(q, cfile, bounds, default, NOCHECK)
            else:
                cmd = self.cbmc_cmd(q, cfile, bounds, default, list(final_flags))
            rc, out, wall, rss = sh(cmd, timeout=left, mem_gb=q.mem_gb)
            cbmc_calls += 1
            rec['cbmc_calls'] = cbmc_calls
            if rc == -9:
                # killed: by our own timeout, or by the kernel OOM killer (then well before the deadline)
                rec['verdict'] = 'TIMEOUT' if time.time() >= deadline - 2 else 'MEMOUT(killed by the OOM killer after %.0f s)' % wall
                rec['phase'] = 'tune' if not tuned else 'final'; return None, out
            res, st = parse_cbmc(out)
            if 'too many addressed objects' in out and q.objbits < 16:
                q.objbits += 2; rec['object_bits'] = q.objbits
                continue
            if st['verdict'] == 'NONE' or any(r['status'] == 'ERROR' for r in res):
                if 'bad_alloc' in out or 'Out of memory' in out or 'out of memory' in out or rc in (-6, 134, 137, -11):
                    rec['verdict'] = 'MEMOUT'
                else:
                    rec['verdict'] = 'ERROR'
                errl = [l for l in out.split('\n') if re.search(r'rror|xception|too many|nsupported|onversion', l) and not RES_RE.match(l)]
                rec['error_tail'] = '\n'.join(errl[:12]) + '\n...\n' + out[-600:]
                return None, out
            uw = [r for r in res if is_unwind(r) and r['status'] == 'FAILURE']
            if os.environ.get('VERIF_DEBUG'):
                log('    [dbg %s%s] tuned=%s wall=%.1fs rss=%dMB steps=%s vars=%s uw=%s' % (q.name, keysuffix, tuned, wall, rss // 1024, st.get('steps'), st.get('variables'), [(unwind_key(r), bounds.get(unwind_key(r), default)) for r in res if is_unwind(r) and r['status'] == 'FAILURE']))
            if uw:
                rec['tune_rounds'] += 1
                for r in uw:
                    k = unwind_key(r)
                    cur = bounds.get(k, default) if k else default
                    if cur >= q.max_unwind:
                        rec['verdict'] = 'UNWIND-LIMIT'; rec['unwind_limit_at'] = k; return None, out
                    nv = min(q.max_unwind, cur * 2 if cur < 64 else cur + max(2, cur // 2))
                    if k: bounds[k] = nv
                    else: default = nv
                continue
            if not tuned:
                tuned = True
                continue
            # final run completed with all unwinding assertions passing
            rec.update(st); rec['wall_cbmc_final_s'] = round(wall, 2); rec['rss_mb'] = rss // 1024
            rec['bounds'] = dict(bounds); rec['default_unwind'] = default
            save_cache(key, dict(bounds=bounds, default=default))
            rec['n_properties'] = len(res)
            rec['n_unwinding_assertions'] = len([r for r in res if is_unwind(r)])
            return res, out

    def native_build(self, q, d):
        exe = os.path.join(d, 'native')
        defs = ['-D' + x for x in q.defs + q.kf_defs + q.native_defs]
        srcs = [os.path.join(HARNESS, q.src)] + [os.path.join(REPO, r) for r in q.link] + [os.path.join(ENGINE, 'rt', 'native_rt.cpp')] + q.native_extra
        rc, out, _, _ = sh(GXX + defs + ['-DVERIF_ENTRY=' + q.entry, '-DVERIF_NATIVE'] + srcs + ['-o', exe], timeout=600)
        if rc != 0: raise RuntimeError('native g++ build failed:\n' + out[-3000:])
        return exe

    def gcc_build(self, q, d, cfile):
        exe = os.path.join(d, 'gccrt')
        rc, out, _, _ = sh(['gcc', '-O1', '-w', '-DVERIF_GCC', '-DVERIF_ENTRY=' + ('verif_sched_main' if q.conc else 'f_' + q.entry), cfile, os.path.join(ENGINE, 'rt', 'gcc_rt.c'), '-lm', '-o', exe], timeout=600)
        if rc != 0: raise RuntimeError('gcc build of generated C failed:\n' + out[-3000:])
        return exe

    @staticmethod
    def last_line(out):
        ls = [l for l in out.strip().split('\n') if l.startswith(('PASS', 'ASSERT-FAIL', 'ASSUME-FALSE'))]
        return ls[-1] if ls else 'CRASH: ' + out.strip()[-300:]

    def validate(self, q, d, cfile, rec):
        """translator validation: generated C (gcc) vs native build of the same harness on identical input streams"""
        if q.validate <= 0 or q.conc:
            rec['validated_streams'] = 0; return True
        nat = self.native_build(q, d); g = self.gcc_build(q, d, cfile)
        env = dict(os.environ, ASAN_OPTIONS='detect_leaks=0')
        agree = 0; nontriv = 0
        for i in range(q.validate):
            sd = str(self.seed * 1000003 + i + 1)
            mask = str(q.small_mask if i % 2 == 0 else 0)
            a = self.last_line(sh([nat, '--seed', sd, mask], timeout=60, env=env)[1])
            b = self.last_line(sh([g, '--seed', sd, mask], timeout=60)[1])
            if a != b:
                rec['validation_mismatch'] = dict(seed=sd, mask=mask, native=a, generated_c=b)
                return False
            agree += 1
            if a.startswith('PASS'): nontriv += 1
        rec['validated_streams'] = agree; rec['validated_reaching_end'] = nontriv
        return True

    def replay_conc(self, q, d, inputs, label, rec, cfile):
        g = self.gcc_build(q, d, cfile)
        rdir = os.path.join(VERIF, 'replays', self.prop); os.makedirs(rdir, exist_ok=True)
        rp = os.path.join(rdir, q.name + '.inputs')
        with open(rp, 'w') as f: f.write('\n'.join(str(v) for v in inputs) + '\n')
        json.dump(dict(property=self.prop, query=q.name, harness=q.src, entry=q.entry, defs=q.defs + q.kf_defs, link=q.link, failing_assertion=label, inputs=inputs, conc=True,
                       how='schedule + data inputs replayed on the gcc build of the sequentialised C (generated from the real code): python3 checks/check.py %s --only %s reproduces it' % (self.prop, q.name)),
                  open(os.path.join(rdir, q.name + '.json'), 'w'), indent=1)
        rc, out, _, _ = sh([g, rp], timeout=120)
        ll = self.last_line(out); rec['replay_native'] = 'sequentialised-C replay: ' + ll[:300]
        return ll.startswith('ASSERT-FAIL'), os.path.join(rdir, q.name + '.json')

    def replay(self, q, d, inputs, label, rec):
        nat = self.native_build(q, d) if not os.path.exists(os.path.join(d, 'native')) else os.path.join(d, 'native')
        rdir = os.path.join(VERIF, 'replays', self.prop); os.makedirs(rdir, exist_ok=True)
        rp = os.path.join(rdir, q.name + '.inputs')
        with open(rp, 'w') as f: f.write('\n'.join(str(v) for v in inputs) + '\n')
        meta = dict(property=self.prop, query=q.name, harness=q.src, entry=q.entry, defs=q.defs + q.kf_defs, link=q.link,
                    failing_assertion=label, inputs=inputs,
                    how='g++ -std=c++17 -I/repo -I/verif/harness -fsanitize=address,undefined %s harness/%s <link> engine/rt/native_rt.cpp -DVERIF_ENTRY=%s && ./a.out %s'
                        % (' '.join('-D' + x for x in q.defs), q.src, q.entry, rp))
        json.dump(meta, open(os.path.join(rdir, q.name + '.json'), 'w'), indent=1)
        rc, out, _, _ = sh([nat, rp], timeout=120, env=dict(os.environ, ASAN_OPTIONS='detect_leaks=1'))
        ll = self.last_line(out)
        rec['replay_native'] = ll[:300]
        if ll.startswith('ASSERT-FAIL'): return True, os.path.join(rdir, q.name + '.json')
        if 'AddressSanitizer' in out or 'runtime error' in out or 'LeakSanitizer' in out or (rc not in (0,) and not ll.startswith('PASS')):
            key = [l.strip() for l in out.split('\n') if 'ERROR: AddressSanitizer' in l or 'runtime error' in l or 'LeakSanitizer' in l or 'terminate called' in l or 'SUMMARY' in l]
            rec['replay_native'] = 'SANITIZER/CRASH: ' + (' | '.join(key[:3])[:500] if key else out.strip()[-400:])
            return True, os.path.join(rdir, q.name + '.json')
        return False, os.path.join(rdir, q.name + '.json')

    def run_smt(self, q):
        rec = dict(query=q.name, harness=q.src, entry=q.function, bounds_text=q.desc, defs=q.defs + q.kf_defs, linked_tlx_sources=[], stubs=[], status='?', backend='ll2smt')
        t0 = time.time(); d = os.path.join(self.tmp, q.name); os.makedirs(d, exist_ok=True)
        try:
            ll = os.path.join(d, 'h.ll'); defs = ['-D' + x for x in q.defs + q.kf_defs]
            cl = ['-O2' if c == '-O1' else c for c in CLANG if c != '-fno-unroll-loops']   # loop-free after full unrolling; -O2 must precede the -fno-*vectorize flags
            rc, out, _, _ = sh(cl + defs + [os.path.join(HARNESS, q.src), '-o', ll], timeout=300)
            if rc != 0: raise RuntimeError('clang failed:\n' + out[-2000:])
            smt = os.path.join(d, 'q.smt2')
            rc, out, _, _ = sh([sys.executable, os.path.join(ENGINE, 'll2smt.py'), ll, '--function', q.function, '-o', smt], timeout=120)
            if rc != 0: raise RuntimeError('ll2smt failed:\n' + out[-2000:])
            txt = open(smt).read(); gv = [l for l in txt.split('\n') if l.startswith('(get-value')]
            body = '(set-logic ALL)\n' + '\n'.join(l for l in txt.split('\n') if not l.startswith('(get-value') and not l.startswith(';'))
            open(smt, 'w').write(body)
            rec['generated_c_sha'] = hashlib.sha256(body.encode()).hexdigest()[:16]; rec['steps'] = body.count('define-fun'); rec['n_properties'] = 1
            answers = {}
            procs = []
            for nm, cmd in SMT_SOLVERS:
                procs.append((nm, subprocess.Popen(['timeout', str(q.timeout)] + cmd + [smt], stdout=subprocess.PIPE, stderr=subprocess.STDOUT)))
            pending = dict(procs)
            while pending:
                for nm in list(pending):
                    p_ = pending[nm]
                    if p_.poll() is None: continue
                    o_ = p_.stdout.read().decode('utf-8', 'replace'); del pending[nm]
                    first = o_.strip().split('\n')[0] if o_.strip() else 'timeout'
                    answers[nm] = 'error' if '(error' in o_ else (first if first in ('sat', 'unsat', 'unknown') else 'timeout')
                definite = [a for a in answers.values() if a in ('sat', 'unsat')]
                if len(definite) >= 2 and len(set(definite)) == 1:      # two solvers agree: do not wait for the slower ones
                    for nm, p_ in pending.items(): p_.kill(); answers[nm] = 'not waited for'
                    pending = {}
                time.sleep(0.2)
            rec['solver_answers'] = answers; rec['solver_s'] = round(time.time() - t0, 2)
            if 'sat' in answers.values():
                sv = [nm for nm, a in answers.items() if a == 'sat'][0]; cmd = dict(SMT_SOLVERS)[sv]
                open(smt, 'a').write('\n' + (gv[0] if gv else '') + '\n')
                rc, mo, _, _ = sh(['timeout', str(q.timeout)] + cmd + [smt], timeout=q.timeout + 5)
                vals = []
                for mm in re.finditer(r'\(v__\S+ ((?:\(- )?\(?/? ?[-0-9. ]+\)?\)?)\)', mo):
                    tok = mm.group(1).replace('(', ' ').replace(')', ' ').split()
                    neg = tok and tok[0] == '-'; tok = [t for t in tok if t != '-']
                    if tok and tok[0] == '/': v = float(tok[1]) / float(tok[2])
                    else: v = float(tok[0]) if q.kind == 'real' else int(tok[0].split('.')[0])
                    vals.append(-v if neg else v)
                rec['cbmc_failed'] = [dict(pid=q.function, desc=q.function + ' == false')]
                exe = os.path.join(d, 'native')
                kdef = ['-DVERIF_KIND_INT', '-DVERIF_T=' + q.ctype] if q.kind == 'int' else []
                rc, out, _, _ = sh(GXX + defs + kdef + ['-DVERIF_NATIVE', '-DVERIF_FN=' + q.function, os.path.join(HARNESS, q.src), '-o', exe], timeout=300)
                if rc != 0: raise RuntimeError('native build failed:\n' + out[-2000:])
                args = [repr(v) if q.kind == 'real' else str(int(v) & 0xFFFFFFFFFFFFFFFF) for v in vals]
                rc, out, _, _ = sh([exe] + args, timeout=60)
                rdir = os.path.join(VERIF, 'replays', self.prop); os.makedirs(rdir, exist_ok=True); rp = os.path.join(rdir, q.name + '.json')
                json.dump(dict(property=self.prop, query=q.name, harness=q.src, entry=q.function, defs=q.defs, link=[], failing_assertion=q.function + ' == false', inputs=args, smt=True,
                               how='g++ -std=c++17 -I/repo -DVERIF_NATIVE -DVERIF_FN=%s %s harness/%s && ./a.out %s' % (q.function, ' '.join(kdef), q.src, ' '.join(args))), open(rp, 'w'), indent=1)
                rec['replay'] = rp; rec['replay_native'] = self.last_line(out)[:200]
                rec['status'] = 'VIOLATION' if 'ASSERT-FAIL' in out else 'INCONCLUSIVE'
                if rec['status'] == 'INCONCLUSIVE': rec['verdict'] = 'COUNTEREXAMPLE-NOT-REPRODUCED (model %s)' % args
            elif 'unsat' in answers.values() and 'error' not in answers.values():
                rec['status'] = 'HOLDS'; rec['vccs_remaining'] = 1; rec['variables'] = body.count('declare-fun'); rec['vccs'] = 1
            else:
                rec['status'] = 'INCONCLUSIVE'; rec['verdict'] = 'SMT solvers: %s' % answers
            return rec
        except Exception as e:
            rec['status'] = 'INCONCLUSIVE'; rec['verdict'] = 'EXCEPTION'; rec['error_tail'] = str(e)[-2000:]; return rec
        finally:
            rec['wall_s'] = round(time.time() - t0, 2)
            if not self.keep: shutil.rmtree(d, ignore_errors=True)
            log('  [%s] %-38s %-12s %6.1fs  %s' % (self.prop, q.name, rec['status'], rec['wall_s'], rec.get('solver_answers', rec.get('verdict', ''))))

    # ------------------------------------------------------------------ one query
    def run_query(self, q):
        if getattr(q, 'smt', False): return self.run_smt(q)
        rec = dict(query=q.name, harness=q.src, entry=q.entry, bounds_text=q.desc, defs=q.defs + q.kf_defs, linked_tlx_sources=q.link,
                   stubs=q.stubs, status='?')
        t0 = time.time()
        d = os.path.join(self.tmp, q.name); os.makedirs(d, exist_ok=True)
        try:
            cfile, _ = self.build_ir(q, d, False)
            fns, h = self.encoded_functions(cfile)
            rec['functions_encoded'] = len(fns); rec['functions_sample'] = [f for f in fns if 'tlx' in f][:12]
            rec['generated_c_sha'] = h
            res, out = self.tune_and_run(q, cfile, rec)
            if res is None:
                rec['status'] = 'INCONCLUSIVE'
                return rec
            fails = [r for r in res if r['status'] == 'FAILURE' and not is_unwind(r)]
            errs = [r for r in res if r['status'] == 'ERROR' or (r['status'] == 'UNKNOWN' and not fails)]
            if errs:
                rec['status'] = 'INCONCLUSIVE'; rec['verdict'] = 'CBMC-ERROR'; return rec
            if fails:
                r0 = fails[0]
                rec['cbmc_failed'] = [dict(pid=r['pid'], desc=r['desc']) for r in fails[:8]]
                inputs = trace_inputs(out, r0['pid'])
                if inputs is None:
                    rec['status'] = 'INCONCLUSIVE'; rec['verdict'] = 'NO-TRACE'; return rec
                ok, rp = self.replay_conc(q, d, inputs, r0['desc'], rec, cfile) if q.conc else self.replay(q, d, inputs, r0['desc'], rec)
                rec['replay'] = rp
                if ok:
                    rec['status'] = 'VIOLATION'
                else:
                    rec['status'] = 'INCONCLUSIVE'; rec['verdict'] = 'COUNTEREXAMPLE-NOT-REPRODUCED'
                return rec
            # holds within bounds: vacuity witness + translator validation
            if q.witness:
                wfile, _ = self.build_ir(q, d, True)
                wrec = {}
                t1 = time.time()
                wres, wout = self.tune_and_run(q, wfile, wrec, '#witness', ['--no-pointer-check', '--no-bounds-check', '--no-div-by-zero-check', '--no-pointer-primitive-check'], init=(rec.get('bounds', {}), rec.get('default_unwind', q.unwind)))
                wwall = time.time() - t1
                rec['cbmc_calls'] = rec.get('cbmc_calls', 0) + wrec.get('cbmc_calls', 0)
                if wres is None:
                    rec['status'] = 'INCONCLUSIVE'; rec['verdict'] = 'WITNESS-RUN-' + str(wrec.get('verdict')); rec['error_tail'] = wrec.get('error_tail'); return rec
                wit = [r for r in wres if 'witness:' in r['desc']]
                rec['witness_points'] = len(wit)
                rec['witness_reached'] = len([r for r in wit if r['status'] == 'FAILURE'])
                rec['witness_wall_s'] = round(wwall, 2)
                if not wit or rec['witness_reached'] != len(wit):
                    rec['status'] = 'INCONCLUSIVE'; rec['verdict'] = 'VACUOUS (witness not reached: %s)' % [r['desc'] for r in wit if r['status'] != 'FAILURE'][:4]
                    if not wit: rec['error_tail'] = wout[-800:]
                    return rec
            if not self.validate(q, d, cfile, rec):
                rec['status'] = 'INCONCLUSIVE'; rec['verdict'] = 'TRANSLATOR-VALIDATION-MISMATCH'; return rec
            rec['status'] = 'HOLDS'
            return rec
        except Exception as e:
            rec['status'] = 'INCONCLUSIVE'; rec['verdict'] = 'EXCEPTION'; rec['error_tail'] = str(e)[-2500:]
            return rec
        finally:
            rec['wall_s'] = round(time.time() - t0, 2)
            if not self.keep: shutil.rmtree(d, ignore_errors=True)
            log('  [%s] %-38s %-12s %6.1fs  %s' % (self.prop, q.name, rec['status'], rec['wall_s'],
                                                   rec.get('verdict', '') if rec['status'] != 'HOLDS' else 'vars=%s steps=%s' % (rec.get('variables'), rec.get('steps'))))

    def run_all(self, queries):
        qs = [q for q in queries if self.tier in q.tiers]
        qs.sort(key=lambda q: -q.weight)
        with ThreadPoolExecutor(max_workers=self.jobs) as ex:
            self.results = list(ex.map(self.run_query, qs))
        return self.results
