#!/usr/bin/env python3
"""ll2smt: translate loop-free LLVM-14 IR functions into SMT-LIB 2 (second, small back end next to ll2c; DESIGN.md §4 C20).

  integers : mathematical Int with explicit mod-2^N wrap (keeps machine semantics; decides div/mod kernels bit-blasting cannot)
  doubles  : Real  (--real)  -- "floats as reals": only used where the property itself is an algebraic identity "up to rounding"

Each translated function must return i1: the property; the query asserts the negation.  unsat = holds for every argument value.
Loop-free means: the CFG is a DAG (checked); phi nodes become ite over edge conditions.
"""
import sys, re, argparse
sys.path.insert(0, __import__('os').path.dirname(__import__('os').path.abspath(__file__)))
from ll2c import (parse_module, FE, Emitter, TInt, TFloat, TPtr, TStruct, TVoid, VLocal, VInt, VFloat, VUndef, VZero, VNull, BINOPS, CASTS)
import struct as _struct


class Opts:  # minimal option object for Emitter/FE
    gcc = False; conc = False; flex = False; dispatch = None; stub = None; entry = None; no_typed_malloc = True; alloc_cap = 0
    unreachable = []; yield_atomics = False; no_yield = []; no_typed_memcpy = True


def fconst(txt):
    if txt.startswith('0x'):
        d = _struct.unpack('<d', _struct.pack('<Q', int(txt[2:], 16)))[0]
    else:
        d = float(txt)
    from fractions import Fraction
    fr = Fraction(d)
    return '(/ %d %d)' % (fr.numerator, fr.denominator) if fr.denominator != 1 else ('%d.0' % fr.numerator if fr.numerator >= 0 else '(- %d.0)' % -fr.numerator)


class SMT:
    def __init__(self, m, fname):
        self.m = m; self.f = m.funcs['@' + fname]
        self.em = Emitter(m, Opts()); self.em.yielding = set()
        self.fe = FE(self.em, self.f); self.fe.parse_all()
        self.lines = []; self.defs = {}

    def sort(self, t):
        t = self.em.res(t)
        if isinstance(t, TInt): return 'Bool' if t.n == 1 else 'Int'
        if isinstance(t, TFloat): return 'Real'
        raise NotImplementedError('type %r' % (t,))

    def name(self, v): return 'v_' + re.sub(r'[^A-Za-z0-9_]', '_', v)

    def val(self, t, v):
        t = self.em.res(t)
        if isinstance(v, VLocal): return self.name(v.name)
        if isinstance(v, VInt):
            if isinstance(t, TInt): return ('true' if v.v & 1 else 'false') if t.n == 1 else str(v.v & ((1 << t.n) - 1))
            if isinstance(t, TFloat): return '%d.0' % v.v
        if isinstance(v, VFloat): return fconst(v.txt)
        if isinstance(v, (VUndef, VZero)): return ('false' if t.n == 1 else '0') if isinstance(t, TInt) else '0.0'
        raise NotImplementedError('value %r' % (v,))

    def signed(self, e, n): return '(ite (>= %s %d) (- %s %d) %s)' % (e, 1 << (n - 1), e, 1 << n, e)
    def wrap(self, e, n): return '(mod %s %d)' % (e, 1 << n)

    def define(self, name, sort, expr):
        self.lines.append('(define-fun %s () %s %s)' % (name, sort, expr))

    def translate(self):
        f = self.f; fe = self.fe
        labels = [b.label for b in f.blocks]
        succ = {b.label: fe.succs(b) for b in f.blocks}
        # DAG check + topological order
        order = []; state = {}
        def dfs(u):
            state[u] = 1
            for v in succ[u]:
                if state.get(v) == 1: raise RuntimeError('ll2smt: function %s has a loop (block %s)' % (f.name, v))
                if v not in state: dfs(v)
            state[u] = 2; order.append(u)
        dfs(labels[0]); order.reverse()
        params = []
        for (t, nm) in f.params:
            s_ = self.sort(t); params.append((self.name(nm), s_, self.em.res(t)))
            self.lines.append('(declare-fun %s () %s)' % (self.name(nm), s_))
            rt = self.em.res(t)
            if isinstance(rt, TInt) and rt.n > 1: self.lines.append('(assert (and (>= %s 0) (< %s %d)))' % (self.name(nm), self.name(nm), 1 << rt.n))
        reach = {labels[0]: 'true'}; edge = {}
        rets = []
        for lab in order:
            b = fe.blocks[lab]
            rc = reach.get(lab, 'false')
            bname = 'r_' + re.sub(r'[^A-Za-z0-9_]', '_', lab)
            self.define(bname, 'Bool', rc); reach[lab] = bname
            for ins in fe.parsed[lab]:
                op = ins['op']; r = self.name(ins['res']) if ins['res'] else None
                if op == 'phi':
                    t = ins['t']; e = self.val(t, ins['inc'][-1][0])
                    for (v, frm) in reversed(ins['inc'][:-1]):
                        e = '(ite %s %s %s)' % (edge.get((frm, lab), 'false'), self.val(t, v), e)
                    self.define(r, self.sort(t), e)
                elif op in BINOPS:
                    t = self.em.res(ins['t']); a = self.val(t, ins['a']); bb = self.val(t, ins['b'])
                    if isinstance(t, TFloat):
                        o = {'fadd': '+', 'fsub': '-', 'fmul': '*', 'fdiv': '/'}[op]
                        self.define(r, 'Real', '(%s %s %s)' % (o, a, bb))
                    elif t.n == 1:
                        o = {'and': 'and', 'or': 'or', 'xor': 'xor'}[op]; self.define(r, 'Bool', '(%s %s %s)' % (o, a, bb))
                    else:
                        n = t.n
                        if op in ('add', 'sub', 'mul'): e = self.wrap('(%s %s %s)' % ({'add': '+', 'sub': '-', 'mul': '*'}[op], a, bb), n)
                        elif op == 'udiv': e = '(div %s %s)' % (a, bb)
                        elif op == 'urem': e = '(mod %s %s)' % (a, bb)
                        elif op in ('sdiv', 'srem'):
                            sa, sb = self.signed(a, n), self.signed(bb, n)   # C semantics: truncation toward zero
                            q = '(ite (>= (* %s %s) 0) (div (abs %s) (abs %s)) (- (div (abs %s) (abs %s))))' % (sa, sb, sa, sb, sa, sb)
                            e = self.wrap(q if op == 'sdiv' else '(- %s (* %s %s))' % (sa, sb, q), n)
                        elif op == 'shl' and isinstance(ins['b'], VInt): e = self.wrap('(* %s %d)' % (a, 1 << ins['b'].v), n)
                        elif op == 'lshr' and isinstance(ins['b'], VInt): e = '(div %s %d)' % (a, 1 << ins['b'].v)
                        elif op == 'and' and isinstance(ins['b'], VInt) and (ins['b'].v + 1) & ins['b'].v == 0: e = '(mod %s %d)' % (a, ins['b'].v + 1)
                        else: raise NotImplementedError('int op %s (non-constant shift / bitwise) in ll2smt' % op)
                        self.define(r, 'Int', e)
                elif op == 'icmp':
                    t = self.em.res(ins['t']); a = self.val(t, ins['a']); bb = self.val(t, ins['b']); p = ins['pred']
                    if t.n == 1:
                        e = {'eq': '(= %s %s)', 'ne': '(not (= %s %s))'}[p] % (a, bb)
                    else:
                        if p[0] == 's': a, bb = self.signed(a, t.n), self.signed(bb, t.n)
                        o = {'eq': '=', 'ne': 'distinct', 'ugt': '>', 'uge': '>=', 'ult': '<', 'ule': '<=', 'sgt': '>', 'sge': '>=', 'slt': '<', 'sle': '<='}[p]
                        e = '(%s %s %s)' % (o, a, bb)
                    self.define(r, 'Bool', e)
                elif op == 'fcmp':
                    t = ins['t']; a = self.val(t, ins['a']); bb = self.val(t, ins['b']); p = ins['pred']
                    if p in ('ord', 'uno', 'true', 'false'):   # reals are never NaN
                        self.define(r, 'Bool', 'true' if p in ('ord', 'true') else 'false'); continue
                    o = {'oeq': '=', 'ueq': '=', 'ogt': '>', 'ugt': '>', 'oge': '>=', 'uge': '>=', 'olt': '<', 'ult': '<', 'ole': '<=', 'ule': '<=', 'one': 'distinct', 'une': 'distinct'}[p]
                    self.define(r, 'Bool', '(%s %s %s)' % (o, a, bb))
                elif op == 'select':
                    t = ins['t']; self.define(r, self.sort(t), '(ite %s %s %s)' % (self.val(ins['tc'], ins['c']), self.val(t, ins['a']), self.val(t, ins['b'])))
                elif op in CASTS:
                    t, t2 = self.em.res(ins['t']), self.em.res(ins['t2']); v = self.val(t, ins['v'])
                    if op == 'zext': e = ('(ite %s 1 0)' % v) if t.n == 1 else v
                    elif op == 'sext': e = ('(ite %s %d 0)' % (v, (1 << t2.n) - 1)) if t.n == 1 else self.wrap(self.signed(v, t.n), t2.n)
                    elif op == 'trunc': e = ('(= (mod %s 2) 1)' % v) if t2.n == 1 else self.wrap(v, t2.n)
                    elif op == 'uitofp': e = '(to_real %s)' % (('(ite %s 1 0)' % v) if t.n == 1 else v)
                    elif op == 'sitofp': e = '(to_real %s)' % self.signed(v, t.n)
                    elif op in ('fpext', 'fptrunc'): e = v
                    else: raise NotImplementedError('cast %s in ll2smt' % op)
                    self.define(r, self.sort(t2), e)
                elif op == 'freeze':
                    self.define(r, self.sort(ins['t']), self.val(ins['t'], ins['v']))
                elif op == 'call':
                    n_ = ins['callee'].name[1:] if hasattr(ins['callee'], 'name') else ''
                    if n_.startswith('llvm.lifetime') or n_.startswith('llvm.dbg') or n_.startswith('llvm.assume'): continue
                    mm = re.match(r'llvm\.(minnum|maxnum|fabs)\.f64$', n_)
                    if mm:
                        A = [self.val(t, v) for (t, v) in ins['args']]
                        e = {'minnum': '(ite (<= %s %s) %s %s)' % (A[0], A[1], A[0], A[1]) if len(A) > 1 else '', 'maxnum': '(ite (>= %s %s) %s %s)' % (A[0], A[1], A[0], A[1]) if len(A) > 1 else '',
                             'fabs': '(ite (>= %s 0.0) %s (- %s))' % (A[0], A[0], A[0])}[mm.group(1)]
                        self.define(r, 'Real', e); continue
                    mm = re.match(r'llvm\.(umin|umax|smin|smax)\.i(\d+)$', n_)
                    if mm:
                        t = self.em.res(ins['rty']); A = [self.val(t, v) for (t_, v) in ins['args']]
                        x, y = (A[0], A[1]) if mm.group(1)[0] == 'u' else (self.signed(A[0], t.n), self.signed(A[1], t.n))
                        c = '(<= %s %s)' % (x, y) if 'min' in mm.group(1) else '(>= %s %s)' % (x, y)
                        self.define(r, 'Int', '(ite %s %s %s)' % (c, A[0], A[1])); continue
                    raise NotImplementedError('call %s in ll2smt' % n_)
                elif op == 'br':
                    if ins['cond'] is None: tg = [(ins['dest'], bname)]
                    else:
                        c = self.val(TInt(1), ins['cond'])
                        tg = [(ins['a'], '(and %s %s)' % (bname, c)), (ins['b'], '(and %s (not %s))' % (bname, c))]
                    for (to, cond) in tg:
                        en = 'e_%s_%s' % (re.sub(r'[^A-Za-z0-9_]', '_', lab), re.sub(r'[^A-Za-z0-9_]', '_', to))
                        if (lab, to) in edge:   # two edges to the same block
                            self.define(en + '_b', 'Bool', cond); edge[(lab, to)] = '(or %s %s_b)' % (edge[(lab, to)], en)
                        else:
                            self.define(en, 'Bool', cond); edge[(lab, to)] = en
                        reach[to] = edge[(lab, to)] if to not in reach or reach[to] == 'false' else '(or %s %s)' % (reach[to], edge[(lab, to)])
                elif op == 'ret':
                    rets.append((bname, self.val(ins['t'], ins['v'])))
                elif op == 'unreachable':
                    pass
                else:
                    raise NotImplementedError('instruction %s in ll2smt' % op)
        res = rets[-1][1]
        for (c, v) in reversed(rets[:-1]): res = '(ite %s %s %s)' % (c, v, res)
        self.define('result', 'Bool', res)
        return params


def main():
    ap = argparse.ArgumentParser(); ap.add_argument('input'); ap.add_argument('--function', required=True); ap.add_argument('-o', '--output', default='-')
    o = ap.parse_args()
    m = parse_module(open(o.input).read())
    s = SMT(m, o.function); params = s.translate()
    out = ['; generated by ll2smt from %s function %s' % (o.input, o.function), '(set-option :produce-models true)'] + s.lines + ['(assert (not result))', '(check-sat)',
           '(get-value (%s))' % ' '.join(p[0] for p in params) if params else '']
    txt = '\n'.join(out) + '\n'
    if o.output == '-': sys.stdout.write(txt)
    else: open(o.output, 'w').write(txt)


if __name__ == '__main__':
    main()
