#!/usr/bin/env python3
"""ll2c: translate LLVM-14 textual IR (typed pointers) into C for CBMC.  PROTOTYPE."""
import re, sys, hashlib, struct, argparse

# ----------------------------------------------------------------------------- lexer
TOK = re.compile(r'''
   (?P<ws>\s+)
 | (?P<cstr>c"(?:[^"\\]|\\[0-9a-fA-F]{2}|\\\\)*")
 | (?P<str>"(?:[^"\\]|\\.)*")
 | (?P<lid>%"(?:[^"\\]|\\.)*"|%[-a-zA-Z$._0-9]+)
 | (?P<gid>@"(?:[^"\\]|\\.)*"|@[-a-zA-Z$._0-9]+)
 | (?P<cid>\$"(?:[^"\\]|\\.)*"|\$[-a-zA-Z$._0-9]+)
 | (?P<md>![-a-zA-Z$._0-9]*|!"(?:[^"\\]|\\.)*")
 | (?P<attr>\#[0-9]+)
 | (?P<hex>0x[KLMHR]?[0-9a-fA-F]+)
 | (?P<flt>-?[0-9]+\.[0-9]*(?:[eE][-+]?[0-9]+)?)
 | (?P<int>-?[0-9]+)
 | (?P<dots>\.\.\.)
 | (?P<word>[a-zA-Z_][-a-zA-Z_.0-9]*)
 | (?P<p>[*,()\[\]{}<>=:|])
''', re.X)

def lex(s):
    out = []
    i = 0
    n = len(s)
    while i < n:
        if s[i] == ';':
            break
        m = TOK.match(s, i)
        if not m:
            raise SyntaxError("lex error at %r" % s[i:i + 40])
        i = m.end()
        k = m.lastgroup
        if k == 'ws':
            continue
        out.append((k, m.group(k)))
    return out

# ----------------------------------------------------------------------------- types
class T:
    pass

class TVoid(T):
    def __repr__(s): return 'void'
class TInt(T):
    def __init__(s, n): s.n = n
    def __repr__(s): return 'i%d' % s.n
class TFloat(T):
    def __init__(s, k): s.k = k
    def __repr__(s): return s.k
class TPtr(T):
    def __init__(s, to): s.to = to
    def __repr__(s): return '%r*' % (s.to,)
class TArr(T):
    def __init__(s, n, el): s.n = n; s.el = el
    def __repr__(s): return '[%d x %r]' % (s.n, s.el)
class TVec(T):
    def __init__(s, n, el): s.n = n; s.el = el
    def __repr__(s): return '<%d x %r>' % (s.n, s.el)
class TStruct(T):
    def __init__(s, els, packed): s.els = els; s.packed = packed
    def __repr__(s): return ('<{%s}>' if s.packed else '{%s}') % ','.join(map(repr, s.els))
class TNamed(T):
    def __init__(s, name): s.name = name
    def __repr__(s): return s.name
class TFunc(T):
    def __init__(s, ret, args, va): s.ret = ret; s.args = args; s.va = va
    def __repr__(s): return '%r(%s%s)' % (s.ret, ','.join(map(repr, s.args)), ',...' if s.va else '')
class TOther(T):
    def __init__(s, k): s.k = k
    def __repr__(s): return s.k

def tkey(t):
    return repr(t)

PARAM_ATTRS = set('''noundef nonnull noalias nocapture readonly readnone writeonly zeroext signext inreg returned
 immarg nofree nest swiftself swifterror inalloca'''.split())
PARAM_ATTRS_ARG = set('align dereferenceable dereferenceable_or_null'.split())
PARAM_ATTRS_TY = set('byval sret byref preallocated elementtype'.split())

class P:
    """token stream parser"""
    def __init__(s, toks): s.t = toks; s.i = 0
    def peek(s, k=0):
        return s.t[s.i + k] if s.i + k < len(s.t) else ('eof', '')
    def next(s):
        x = s.peek(); s.i += 1; return x
    def at(s, v): return s.peek()[1] == v
    def accept(s, v):
        if s.peek()[1] == v:
            s.i += 1; return True
        return False
    def expect(s, v):
        x = s.next()
        if x[1] != v:
            raise SyntaxError("expected %r got %r near %r" % (v, x, s.t[max(0, s.i - 6):s.i + 6]))
    def eof(s): return s.i >= len(s.t)

    def type(s):
        k, v = s.next()
        if v == 'void': t = TVoid()
        elif k == 'word' and re.fullmatch(r'i[0-9]+', v): t = TInt(int(v[1:]))
        elif v in ('float', 'double', 'half', 'x86_fp80', 'fp128'): t = TFloat(v)
        elif v in ('label', 'metadata', 'token', 'opaque', 'x86_mmx'): t = TOther(v)
        elif k == 'lid': t = TNamed(v)
        elif v == '[':
            n = int(s.next()[1]); s.expect('x'); el = s.type(); s.expect(']'); t = TArr(n, el)
        elif v == '<':
            if s.at('{'):
                s.next(); els = s.typelist('}'); s.expect('>'); t = TStruct(els, True)
            else:
                n = int(s.next()[1]); s.expect('x'); el = s.type(); s.expect('>'); t = TVec(n, el)
        elif v == '{':
            els = s.typelist('}'); t = TStruct(els, False)
        else:
            raise SyntaxError("bad type token %r near %r" % (v, s.t[max(0, s.i - 6):s.i + 6]))
        while True:
            if s.at('*'):
                s.next(); t = TPtr(t)
            elif s.at('(') :
                s.next(); args = []; va = False
                while not s.at(')'):
                    if s.at('...'):
                        s.next(); va = True
                    else:
                        args.append(s.type()); s.skip_param_attrs()
                    s.accept(',')
                s.expect(')'); t = TFunc(t, args, va)
            elif s.peek()[1] == 'addrspace':
                s.next(); s.expect('('); s.next(); s.expect(')')
            else:
                break
        return t

    def typelist(s, close):
        els = []
        while not s.at(close):
            els.append(s.type()); s.accept(',')
        s.expect(close)
        return els

    def skip_param_attrs(s):
        while True:
            k, v = s.peek()
            if k != 'word': break
            if v in PARAM_ATTRS: s.next()
            elif v in PARAM_ATTRS_ARG:
                s.next()
                if s.at('('):
                    s.next(); s.next(); s.expect(')')
                else:
                    s.next()
            elif v in PARAM_ATTRS_TY:
                s.next()
                if s.at('('):
                    s.next(); s.type(); s.expect(')')
            else: break

# ----------------------------------------------------------------------------- values
class V:
    pass
class VLocal(V):
    def __init__(s, name): s.name = name
class VGlobal(V):
    def __init__(s, name): s.name = name
class VInt(V):
    def __init__(s, v): s.v = v
class VFloat(V):
    def __init__(s, txt): s.txt = txt
class VNull(V): pass
class VUndef(V): pass
class VZero(V): pass
class VAgg(V):   # array / struct / vector constant
    def __init__(s, kind, els): s.kind = kind; s.els = els   # els: list of (type, V)
class VCStr(V):
    def __init__(s, b): s.b = b
class VCE(V):    # constant expression
    def __init__(s, op, args, extra=None): s.op = op; s.args = args; s.extra = extra  # args: list of (type,V)

def parse_cstr(tok):
    body = tok[2:-1]
    out = bytearray(); i = 0
    while i < len(body):
        if body[i] == '\\':
            if body[i + 1] == '\\':
                out.append(92); i += 2
            else:
                out.append(int(body[i + 1:i + 3], 16)); i += 3
        else:
            out.append(ord(body[i])); i += 1
    return bytes(out)

CE_OPS = set('getelementptr bitcast ptrtoint inttoptr trunc zext sext icmp select add sub mul and or xor shl lshr ashr addrspacecast fptosi sitofp uitofp fptoui fpext fptrunc'.split())

ALIASES = {}
def parse_value(p, ty):
    k, v = p.next()
    if k == 'lid': return VLocal(v)
    if k == 'gid': return VGlobal(ALIASES.get(v, v))
    if k == 'int': return VInt(int(v))
    if k == 'flt' or k == 'hex': return VFloat(v)
    if v == 'true': return VInt(1)
    if v == 'false': return VInt(0)
    if v == 'null': return VNull()
    if v in ('undef', 'poison'): return VUndef()
    if v == 'zeroinitializer': return VZero()
    if v == 'none': return VZero()
    if k == 'cstr': return VCStr(parse_cstr(v))
    if v == '[':
        els = []
        while not p.at(']'):
            t = p.type(); els.append((t, parse_value(p, t))); p.accept(',')
        p.expect(']'); return VAgg('arr', els)
    if v == '{':
        els = []
        while not p.at('}'):
            t = p.type(); els.append((t, parse_value(p, t))); p.accept(',')
        p.expect('}'); return VAgg('struct', els)
    if v == '<':
        if p.at('{'):
            p.next(); els = []
            while not p.at('}'):
                t = p.type(); els.append((t, parse_value(p, t))); p.accept(',')
            p.expect('}'); p.expect('>'); return VAgg('struct', els)
        els = []
        while not p.at('>'):
            t = p.type(); els.append((t, parse_value(p, t))); p.accept(',')
        p.expect('>'); return VAgg('vec', els)
    if k == 'word' and v in CE_OPS:
        op = v
        while p.peek()[1] in ('inbounds', 'nuw', 'nsw', 'exact', 'inrange'): p.next()
        extra = None
        if op == 'icmp':
            extra = p.next()[1]
        p.expect('(')
        args = []
        if op == 'getelementptr':
            extra = p.type(); p.expect(',')
        while not p.at(')'):
            if p.peek()[1] == 'inrange': p.next()
            t = p.type(); val = parse_value(p, t); args.append((t, val))
            if p.at('to'):
                p.next(); extra = p.type()
            p.accept(',')
        p.expect(')')
        return VCE(op, args, extra)
    raise SyntaxError("bad value %r %r near %r" % (k, v, p.t[max(0, p.i - 8):p.i + 8]))

# ----------------------------------------------------------------------------- module
class Func:
    def __init__(s): s.blocks = []; s.params = []; s.name = None; s.ret = None; s.va = False; s.decl = False; s.linkage = ''
class Block:
    def __init__(s, label): s.label = label; s.ins = []
class Ins:
    def __init__(s, res, op): s.res = res; s.op = op

class Module:
    def __init__(s):
        s.named = {}      # %name -> type or None (opaque)
        s.named_order = []
        s.globals = {}    # @name -> dict
        s.gorder = []
        s.funcs = {}
        s.forder = []

LINKAGE = set('private internal available_externally linkonce weak common appending extern_weak linkonce_odr weak_odr external dso_local dso_preemptable default hidden protected unnamed_addr local_unnamed_addr thread_local dllimport dllexport'.split())

def strip_md(toks):
    # drop trailing ", !md !n" pairs and attribute groups
    out = []
    i = 0
    while i < len(toks):
        k, v = toks[i]
        if k == 'md':
            # remove preceding comma if any
            if out and out[-1][1] == ',': out.pop()
            # skip md tokens (possibly "!tbaa !5" pairs)
            while i < len(toks) and toks[i][0] == 'md': i += 1
            continue
        out.append((k, v)); i += 1
    return out

def parse_module(text):
    m = Module()
    lines = text.split('\n')
    i = 0
    while i < len(lines):
        ln = lines[i]
        s = ln.strip()
        if not s or s.startswith(';') or s.startswith('source_filename') or s.startswith('target ') \
           or s.startswith('attributes ') or s.startswith('!') or s.startswith('$') or s.startswith('module asm'):
            i += 1; continue
        if s.startswith('%') and ' = type ' in s:
            toks = lex(s); p = P(toks)
            name = p.next()[1]; p.expect('='); p.expect('type')
            if p.at('opaque'):
                m.named[name] = None
            else:
                m.named[name] = p.type()
            m.named_order.append(name)
            i += 1; continue
        if s.startswith('@'):
            toks = strip_md(lex(s)); p = P(toks)
            name = p.next()[1]; p.expect('=')
            link = []
            while p.peek()[1] in LINKAGE:
                link.append(p.next()[1])
            if p.peek()[1] == 'thread_local':
                p.next()
                if p.at('('):
                    p.next(); p.next(); p.expect(')')
            while p.peek()[1] in LINKAGE:
                link.append(p.next()[1])
            if p.peek()[1] in ('alias', 'ifunc'):
                p.next(); t = p.type(); p.expect(','); t2 = p.type(); tgt = parse_value(p, t2)
                m.globals[name] = dict(name=name, alias=(t2, tgt), type=t, link=link); m.gorder.append(name)
                i += 1; continue
            kind = p.next()[1]  # global / constant
            assert kind in ('global', 'constant'), (kind, s[:80])
            t = p.type()
            init = None
            if not p.eof() and not p.at(','):
                init = parse_value(p, t)
            m.globals[name] = dict(name=name, type=t, init=init, link=link, const=(kind == 'constant'))
            m.gorder.append(name)
            i += 1; continue
        if s.startswith('declare') or s.startswith('define'):
            f = Func(); f.decl = s.startswith('declare')
            toks = strip_md(lex(s)); p = P(toks); p.next()
            while p.peek()[1] in LINKAGE or p.peek()[1] in ('noundef', 'nonnull', 'noalias', 'zeroext', 'signext', 'fastcc', 'ccc', 'coldcc') or p.peek()[1] in PARAM_ATTRS_ARG:
                w = p.next()[1]
                if w in LINKAGE: f.linkage += ' ' + w
                if w in PARAM_ATTRS_ARG:
                    if p.at('('):
                        p.next(); p.next(); p.expect(')')
                    else:
                        p.next()
            f.ret = p.type()
            f.name = p.next()[1]
            p.expect('(')
            while not p.at(')'):
                if p.at('...'):
                    p.next(); f.va = True
                else:
                    t = p.type(); p.skip_param_attrs()
                    nm = None
                    if p.peek()[0] == 'lid': nm = p.next()[1]
                    f.params.append((t, nm))
                p.accept(',')
            p.expect(')')
            i += 1
            if not f.decl:
                # number unnamed params
                cnt = 0
                for j, (t, nm) in enumerate(f.params):
                    if nm is None:
                        f.params[j] = (t, '%' + str(cnt))
                    if f.params[j][1] == '%' + str(cnt): cnt += 1
                cur = Block('%' + str(cnt)); f.blocks.append(cur); first = True
                while True:
                    ln = lines[i]; st = ln.strip(); i += 1
                    if st == '}': break
                    if not st or st.startswith(';'): continue
                    mm = re.match(r'^("(?:[^"\\]|\\.)*"|[-a-zA-Z$._0-9]+):', st)
                    if mm and not st.startswith('%') and '=' not in st.split(':')[0]:
                        lab = mm.group(1)
                        if first and not cur.ins:
                            cur.label = '%' + lab
                        else:
                            cur = Block('%' + lab); f.blocks.append(cur)
                        first = False
                        continue
                    first = False
                    # join multi-line instructions
                    if st.startswith('switch') or ' switch ' in st:
                        while st.count('[') > st.count(']'):
                            st += ' ' + lines[i].strip(); i += 1
                    if re.search(r'\binvoke\b', st):
                        while 'unwind label' not in st:
                            st += ' ' + lines[i].strip(); i += 1
                    if re.search(r'= landingpad\b', st):
                        while lines[i].strip().startswith(('catch', 'cleanup', 'filter')):
                            st += ' ' + lines[i].strip(); i += 1
                    cur.ins.append(st)
            m.funcs[f.name] = f; m.forder.append(f.name)
            continue
        if s.startswith('}'):
            i += 1; continue
        raise SyntaxError("unhandled top-level line: %r" % s[:120])
    return m

# ----------------------------------------------------------------------------- C emission
def san(name):
    n = name
    if n.startswith(('%', '@')): n = n[1:]
    if n.startswith('"'): n = n[1:-1]
    out = re.sub(r'[^A-Za-z0-9_]', lambda mm: '_%02x' % ord(mm.group(0)), n)
    if len(out) > 100:
        out = out[:60] + '_' + hashlib.md5(n.encode()).hexdigest()[:12]
    return out

class Emitter:
    def __init__(s, mod, opts):
        s.m = mod; s.o = opts
        s.lit_structs = {}   # key -> cname
        s.lit_order = []
        s.arr_structs = {}
        s.vec_structs = {}
        s.type_decls = []    # emitted order of struct definitions
        s.defined = set()
        s.out = []
        s.strtab = {}
        s.eh_ids = {}

    # ---- type names
    def cty(s, t):
        if isinstance(t, TVoid): return 'void'
        if isinstance(t, TInt):
            if t.n == 1: return '_Bool'
            if t.n in (8, 16, 32, 64): return 'uint%d_t' % t.n
            return 'VERIF_UBV(%d)' % t.n if t.n <= 64 else 'VERIF_UBVW(%d)' % t.n
        if isinstance(t, TFloat):
            return {'float': 'float', 'double': 'double', 'x86_fp80': 'long double', 'half': 'float', 'fp128': 'long double'}[t.k]
        if isinstance(t, TPtr):
            if isinstance(t.to, TFunc):
                return s.fptr_ty(t.to)
            if isinstance(t.to, TVoid) or isinstance(t.to, TOther): return 'void*'
            return s.cty(t.to) + '*'
        if isinstance(t, TNamed):
            return 'struct S_' + san(t.name)
        if isinstance(t, TStruct):
            return 'struct ' + s.lit_struct(t)
        if isinstance(t, TArr):
            return 'struct ' + s.arr_struct(t)
        if isinstance(t, TVec):
            return 'struct ' + s.vec_struct(t)
        if isinstance(t, TFunc):
            return s.fptr_ty(t)[:-0]
        if isinstance(t, TOther):
            return 'void'
        raise TypeError(t)

    def fptr_ty(s, ft):
        key = 'FP_' + hashlib.md5(tkey(ft).encode()).hexdigest()[:10]
        if key not in s.defined:
            s.defined.add(key)
            args = ', '.join(s.cty(a) for a in ft.args)
            if ft.va: args = (args + ', ...') if args else ''
            elif not args: args = 'void'
            s.type_decls.append('typedef %s (*%s)(%s);' % (s.cty(ft.ret), key, args))
        return key

    def lit_struct(s, t):
        k = tkey(t)
        if k not in s.lit_structs:
            nm = 'L_' + hashlib.md5(k.encode()).hexdigest()[:10]
            s.lit_structs[k] = nm
            s.def_struct(nm, t.els, t.packed)
        return s.lit_structs[k]

    def arr_struct(s, t):
        k = tkey(t)
        if k not in s.arr_structs:
            nm = 'A_' + hashlib.md5(k.encode()).hexdigest()[:10]
            s.arr_structs[k] = nm
            el = s.cty(t.el)
            s.need_complete(t.el)
            s.type_decls.append('struct %s { %s a[%d]; };' % (nm, el, max(t.n, 1) if not s.o.flex else t.n))
        return s.arr_structs[k]

    def vec_struct(s, t):
        k = tkey(t)
        if k not in s.vec_structs:
            nm = 'V_' + hashlib.md5(k.encode()).hexdigest()[:10]
            s.vec_structs[k] = nm
            s.type_decls.append('struct %s { %s a[%d]; };' % (nm, s.cty(t.el), t.n))
        return s.vec_structs[k]

    def need_complete(s, t):
        """make sure the struct definition for t is emitted before use by value"""
        if isinstance(t, TNamed):
            s.def_named(t.name)
        elif isinstance(t, TStruct):
            s.lit_struct(t)
        elif isinstance(t, TArr):
            s.arr_struct(t)
        elif isinstance(t, TVec):
            s.vec_struct(t)

    def def_named(s, name):
        key = 'N_' + name
        if key in s.defined: return
        s.defined.add(key)
        t = s.m.named.get(name)
        if t is None:
            s.type_decls.append('struct S_%s { uint8_t opaque_; };' % san(name))
            return
        s.def_struct('S_' + san(name), t.els, t.packed)

    def def_struct(s, cname, els, packed):
        for e in els: s.need_complete(e)
        fields = []
        for i, e in enumerate(els):
            fields.append('%s f%d;' % (s.cty(e), i))
        if not fields: fields = ['uint8_t empty_;'] if False else []
        body = ' '.join(fields)
        s.type_decls.append('struct %s%s { %s };' % ('__attribute__((packed)) ' if packed else '', cname, body))

    # ---- resolve named types
    def res(s, t):
        while isinstance(t, TNamed):
            t2 = s.m.named.get(t.name)
            if t2 is None: return t
            t = t2
        return t

    # ---- sizes (x86-64 data layout)
    def size_align(s, t):
        t = s.res(t)
        if isinstance(t, TInt):
            b = max(1, (t.n + 7) // 8)
            sz = 1
            while sz < b: sz *= 2
            return sz, min(sz, 8) if sz <= 8 else 16
        if isinstance(t, TFloat):
            return {'float': (4, 4), 'double': (8, 8), 'x86_fp80': (16, 16), 'half': (2, 2), 'fp128': (16, 16)}[t.k]
        if isinstance(t, TPtr): return 8, 8
        if isinstance(t, TArr):
            sz, al = s.size_align(t.el); return sz * t.n, al
        if isinstance(t, TVec):
            sz, al = s.size_align(t.el); return sz * t.n, sz * t.n
        if isinstance(t, TStruct):
            off = 0; mal = 1
            for e in t.els:
                sz, al = s.size_align(e)
                if t.packed: al = 1
                off = (off + al - 1) // al * al
                off += sz; mal = max(mal, al)
            off = (off + mal - 1) // mal * mal
            return off, mal
        if isinstance(t, TNamed): return 1, 1
        raise TypeError(t)

    def field_offset(s, t, idx):
        t = s.res(t); off = 0
        for i, e in enumerate(t.els):
            sz, al = s.size_align(e)
            if t.packed: al = 1
            off = (off + al - 1) // al * al
            if i == idx: return off
            off += sz
        raise IndexError

    # ---- constants
    def cint(s, t, v):
        n = t.n
        v &= (1 << n) - 1
        if n == 1: return '1' if v else '0'
        if n <= 32: return '((%s)%dU)' % (s.cty(t), v)
        if n <= 64: return '((%s)%dULL)' % (s.cty(t), v)
        # wide
        hi = v >> 64; lo = v & ((1 << 64) - 1)
        return '(((%s)%dULL << 64) | (%s)%dULL)' % (s.cty(t), hi, s.cty(t), lo)

    def cfloat(s, t, txt):
        if txt.startswith('0x'):
            h = txt[2:]
            if h[0] in 'KLMHR':
                raise NotImplementedError('long double const')
            bits = int(h, 16)
            d = struct.unpack('<d', struct.pack('<Q', bits))[0]
            if d != d: return '(0.0/0.0)'
            if d in (float('inf'), float('-inf')): return '(%s1.0/0.0)' % ('-' if d < 0 else '')
            r = d.hex()
            return '((%s)%s)' % (s.cty(t), r)
        return '((%s)%s)' % (s.cty(t), txt)

    def gname(s, name):
        return 'g_' + san(name) if name not in s.m.funcs else s.fname(name)

    def fname(s, name):
        n = name[1:]
        if n.startswith('"'): n = n[1:-1]
        if n in PASSTHRU or n.startswith('__CPROVER') or n.startswith('nondet_') or n.startswith('verif_'):
            return n
        return 'f_' + san(name)

    def val(s, t, v, loc=None):
        """C expression for value v of type t"""
        rt = s.res(t)
        if isinstance(v, VLocal): return loc(v.name) if loc else ('v_' + san(v.name))
        if isinstance(v, VGlobal):
            if v.name in s.m.funcs:
                f = s.m.funcs[v.name]
                return '((%s)&%s)' % (s.cty(t), s.fname(v.name))
            return '(&%s)' % s.gname(v.name)
        if isinstance(v, VInt):
            if isinstance(rt, TInt): return s.cint(rt, v.v)
            if isinstance(rt, TFloat): return '((%s)%d)' % (s.cty(rt), v.v)
            raise TypeError((t, v.v))
        if isinstance(v, VFloat): return s.cfloat(rt, v.txt)
        if isinstance(v, VNull): return '((%s)0)' % s.cty(t)
        if isinstance(v, (VUndef, VZero)):
            if isinstance(rt, (TInt,)): return s.cint(rt, 0)
            if isinstance(rt, TFloat): return '((%s)0)' % s.cty(rt)
            if isinstance(rt, TPtr): return '((%s)0)' % s.cty(t)
            return '((%s){0})' % s.cty(t)
        if isinstance(v, VCStr):
            return '((%s){{%s}})' % (s.cty(t), ','.join(str(b) for b in v.b))
        if isinstance(v, VAgg):
            if v.kind == 'struct':
                return '((%s){%s})' % (s.cty(t), ', '.join(s.val(et, ev, loc) for et, ev in v.els))
            return '((%s){{%s}})' % (s.cty(t), ', '.join(s.val(et, ev, loc) for et, ev in v.els))
        if isinstance(v, VCE):
            return s.constexpr(t, v, loc)
        raise TypeError(v)

    def init(s, t, v):
        """C initializer (brace form, no compound literal) for global of type t"""
        rt = s.res(t)
        if isinstance(v, (VZero, VUndef)):
            if isinstance(rt, (TInt, TFloat, TPtr)): return '0'
            return '{0}'
        if isinstance(v, VCStr):
            return '{{%s}}' % ','.join(str(b) for b in v.b)
        if isinstance(v, VAgg):
            if v.kind == 'struct':
                if not v.els: return '{0}'
                return '{%s}' % ', '.join(s.init(et, ev) for et, ev in v.els)
            return '{{%s}}' % ', '.join(s.init(et, ev) for et, ev in v.els)
        return s.val(t, v)

    def gep_expr(s, basety, ptr_c, idxs, loc):
        """idxs: list of (type, V).  basety = pointee type of ptr. returns (cexpr, resulting pointee type)"""
        it = iter(idxs)
        t0, v0 = next(it)
        i0 = s.sidx(t0, v0, loc)
        e = '(*(%s + %s))' % (ptr_c, i0) if i0 != '0' else '(*%s)' % ptr_c
        cur = basety
        for (ti, vi) in it:
            rc = s.res(cur)
            if isinstance(rc, TStruct):
                assert isinstance(vi, VInt), vi
                e = '%s.f%d' % (e, vi.v); cur = rc.els[vi.v]
            elif isinstance(rc, (TArr, TVec)):
                e = '%s.a[%s]' % (e, s.sidx(ti, vi, loc)); cur = rc.el
            else:
                raise TypeError(('gep into', rc))
        return '(&%s)' % e, cur

    def sidx(s, t, v, loc):
        if isinstance(v, VInt): return str(v.v)
        rt = s.res(t)
        c = s.val(t, v, loc)
        return '(int%d_t)%s' % (rt.n, c) if rt.n in (8, 16, 32, 64) else c

    def constexpr(s, t, v, loc=None):
        op = v.op
        if op == 'getelementptr':
            pt, pv = v.args[0]
            e, cur = s.gep_expr(v.extra, s.val(pt, pv, loc), v.args[1:], loc)
            return e
        if op in ('bitcast', 'addrspacecast'):
            st, sv = v.args[0]
            return '((%s)%s)' % (s.cty(v.extra), s.val(st, sv, loc))
        if op == 'ptrtoint':
            st, sv = v.args[0]
            return '((%s)(uintptr_t)%s)' % (s.cty(v.extra), s.val(st, sv, loc))
        if op == 'inttoptr':
            st, sv = v.args[0]
            return '((%s)(uintptr_t)%s)' % (s.cty(v.extra), s.val(st, sv, loc))
        if op in ('trunc', 'zext'):
            st, sv = v.args[0]
            return '((%s)%s)' % (s.cty(v.extra), s.val(st, sv, loc))
        if op == 'icmp':
            (t1, a), (t2, b) = v.args
            return s.icmp(v.extra, t1, s.val(t1, a, loc), s.val(t2, b, loc))
        if op in BINOPS:
            (t1, a), (t2, b) = v.args
            return s.binop(op, t1, s.val(t1, a, loc), s.val(t2, b, loc))
        if op == 'select':
            (tc, c), (t1, a), (t2, b) = v.args
            return '(%s ? %s : %s)' % (s.val(tc, c, loc), s.val(t1, a, loc), s.val(t2, b, loc))
        raise NotImplementedError('constexpr ' + op)

    def sty(s, t):
        rt = s.res(t)
        if isinstance(rt, TInt):
            if rt.n in (8, 16, 32, 64): return 'int%d_t' % rt.n
            if rt.n == 1: return 'int8_t'
            return 'VERIF_SBV(%d)' % rt.n if rt.n <= 64 else 'VERIF_SBVW(%d)' % rt.n
        if isinstance(rt, TPtr): return 'intptr_t'
        raise TypeError(rt)

    def icmp(s, pred, t, a, b):
        rt = s.res(t)
        if isinstance(rt, TPtr):
            if pred in ('eq', 'ne'):
                return '(%s %s %s)' % (a, '==' if pred == 'eq' else '!=', b)
            a = '(uintptr_t)%s' % a; b = '(uintptr_t)%s' % b
            sg = 'intptr_t'
        else:
            sg = s.sty(t)
        ops = {'eq': '==', 'ne': '!=', 'ugt': '>', 'uge': '>=', 'ult': '<', 'ule': '<=',
               'sgt': '>', 'sge': '>=', 'slt': '<', 'sle': '<='}
        if pred[0] == 's':
            if isinstance(rt, TInt) and rt.n == 1:
                return '((-(int)%s) %s (-(int)%s))' % (a, ops[pred], b)
            return '((%s)%s %s (%s)%s)' % (sg, a, ops[pred], sg, b)
        return '(%s %s %s)' % (a, ops[pred], b)

    def binop(s, op, t, a, b):
        rt = s.res(t)
        ct = s.cty(t)
        if isinstance(rt, TFloat):
            o = {'fadd': '+', 'fsub': '-', 'fmul': '*', 'fdiv': '/'}.get(op)
            if o: return '((%s)(%s %s %s))' % (ct, a, o, b)
            if op == 'frem': return 'fmod(%s,%s)' % (a, b)
            raise NotImplementedError(op)
        n = rt.n
        if n == 1:
            o = {'add': '^', 'sub': '^', 'xor': '^', 'and': '&', 'or': '|', 'mul': '&'}[op]
            return '((_Bool)(%s %s %s))' % (a, o, b)
        wide = 'uint64_t' if n <= 64 else ct
        if n < 32:   # avoid int promotion surprises
            a = '(uint32_t)%s' % a; b = '(uint32_t)%s' % b
        sg = s.sty(t)
        if op in ('add', 'sub', 'mul', 'and', 'or', 'xor'):
            o = {'add': '+', 'sub': '-', 'mul': '*', 'and': '&', 'or': '|', 'xor': '^'}[op]
            return '((%s)(%s %s %s))' % (ct, a, o, b)
        if op == 'shl': return '((%s)(%s << %s))' % (ct, a, b)
        if op == 'lshr': return '((%s)(%s >> %s))' % (ct, a, b)
        if op == 'ashr': return '((%s)((%s)(%s)%s >> %s))' % (ct, sg, ct, a.replace('(uint32_t)', '', 1) if n < 32 else a, b)
        if op == 'udiv': return '((%s)(%s / %s))' % (ct, a, b)
        if op == 'urem': return '((%s)(%s %% %s))' % (ct, a, b)
        if op in ('sdiv', 'srem'):
            if n < 32:
                a = a.replace('(uint32_t)', '', 1); b = b.replace('(uint32_t)', '', 1)
            return '((%s)((%s)%s %s (%s)%s))' % (ct, sg, a, '/' if op == 'sdiv' else '%', sg, b)
        raise NotImplementedError(op)

BINOPS = set('add sub mul udiv sdiv urem srem shl lshr ashr and or xor fadd fsub fmul fdiv frem'.split())
PASSTHRU = set('''malloc free memcpy memmove memset memcmp bcmp memchr strlen strcmp strncmp abort exit'''.split())

# ----------------------------------------------------------------------------- function bodies
CASTS = set('trunc zext sext fptrunc fpext fptoui fptosi uitofp sitofp ptrtoint inttoptr bitcast addrspacecast'.split())
NOTHROW = set('''malloc free memcpy memmove memset memcmp bcmp memchr strlen strcmp strncmp'''.split())

EH_PARENTS = {  # libstdc++ standard exception hierarchy (typeinfo symbol -> parent)
    '@_ZTISt12out_of_range': '@_ZTISt11logic_error', '@_ZTISt12length_error': '@_ZTISt11logic_error',
    '@_ZTISt16invalid_argument': '@_ZTISt11logic_error', '@_ZTISt12domain_error': '@_ZTISt11logic_error',
    '@_ZTISt11logic_error': '@_ZTISt9exception',
    '@_ZTISt11range_error': '@_ZTISt13runtime_error', '@_ZTISt14overflow_error': '@_ZTISt13runtime_error',
    '@_ZTISt15underflow_error': '@_ZTISt13runtime_error', '@_ZTISt13runtime_error': '@_ZTISt9exception',
    '@_ZTISt9bad_alloc': '@_ZTISt9exception', '@_ZTISt20bad_array_new_length': '@_ZTISt9bad_alloc',
}

ENV_NOOP = re.compile(r'_ZNSt(12out_of_range|11range_error|13runtime_error|11logic_error|12length_error|16invalid_argument|9exception|12domain_error|14overflow_error|15underflow_error|9bad_alloc)(C[12]|D[012])E')

class FE:
    """function emitter"""
    def __init__(s, em, f):
        s.em = em; s.f = f; s.m = em.m
        s.types = {}      # local name -> type
        s.lines = []
        s.decls = []
        s.blocks = {b.label: b for b in f.blocks}
        s.parsed = {}     # label -> list of parsed instrs
        s.tmpc = 0
        s.conc = bool(getattr(em.o, 'conc', False)) and f.name in getattr(em, 'yielding', ())
        s.nyield = 0
        s.frame_extra = []   # extra frame fields (allocas, call-site function pointers)

    def loc(s, name): return ('f_->v_' if s.conc else 'v_') + san(name)
    def V(s, t, v): return s.em.val(t, v, s.loc)
    def cty(s, t): return s.em.cty(t)
    def res(s, t): return s.em.res(t)
    def tmp(s):
        s.tmpc += 1; return 't_%d' % s.tmpc

    def operand(s, p):
        t = p.type(); p.skip_param_attrs(); v = parse_value(p, t); return t, v

    # -- pass 1: parse each instruction into a tuple and compute result types
    def parse_all(s):
        for (t, nm) in s.f.params: s.types[nm] = t
        for b in s.f.blocks:
            lst = []
            for st in b.ins:
                toks = strip_md(lex(st))
                # drop trailing attribute group refs
                toks = [x for x in toks if x[0] != 'attr']
                p = P(toks)
                resn = None
                if p.peek()[0] == 'lid' and p.peek(1)[1] == '=':
                    resn = p.next()[1]; p.next()
                ins = s.parse_ins(p, resn)
                ins['res'] = resn
                lst.append(ins)
            s.parsed[b.label] = lst
        # result types that depend on operand types of locals (fixpoint not needed: SSA dominance, but phis may fwd-ref; they carry types)
        for b in s.f.blocks:
            for ins in s.parsed[b.label]:
                if ins['res'] is not None:
                    s.types[ins['res']] = ins['rty'] if not callable(ins['rty']) else None
        for b in s.f.blocks:
            for ins in s.parsed[b.label]:
                if ins['res'] is not None and callable(ins['rty']):
                    s.types[ins['res']] = ins['rty']()
        s.defs = {}
        for b in s.f.blocks:
            for ins in s.parsed[b.label]:
                if ins['res'] is not None: s.defs[ins['res']] = ins

    def parse_ins(s, p, resn):
        k, op = p.next()
        while op in ('tail', 'musttail', 'notail'):
            k, op = p.next()
        d = dict(op=op, rty=None)
        FM = ('nnan', 'ninf', 'nsz', 'arcp', 'contract', 'afn', 'reassoc', 'fast', 'nuw', 'nsw', 'exact')
        if op in BINOPS:
            while p.peek()[1] in FM: p.next()
            t = p.type(); a = parse_value(p, t); p.expect(','); b = parse_value(p, t)
            d.update(t=t, a=a, b=b, rty=t)
        elif op == 'fneg':
            while p.peek()[1] in FM: p.next()
            t = p.type(); a = parse_value(p, t); d.update(t=t, a=a, rty=t)
        elif op in ('icmp', 'fcmp'):
            while p.peek()[1] in FM: p.next()
            pred = p.next()[1]; t = p.type(); a = parse_value(p, t); p.expect(','); b = parse_value(p, t)
            rt = s.res(t)
            d.update(pred=pred, t=t, a=a, b=b, rty=(TVec(rt.n, TInt(1)) if isinstance(rt, TVec) else TInt(1)))
        elif op == 'select':
            while p.peek()[1] in FM: p.next()
            tc, c = s.operand(p); p.expect(','); t1, a = s.operand(p); p.expect(','); t2, b = s.operand(p)
            d.update(tc=tc, c=c, t=t1, a=a, b=b, rty=t1)
        elif op == 'phi':
            while p.peek()[1] in FM: p.next()
            t = p.type(); inc = []
            while p.at('['):
                p.next(); v = parse_value(p, t); p.expect(','); lab = p.next()[1]; p.expect(']'); p.accept(',')
                inc.append((v, lab))
            d.update(t=t, inc=inc, rty=t)
        elif op == 'alloca':
            p.accept('inalloca')
            t = p.type(); cnt = None
            while p.accept(','):
                if p.peek()[1] == 'align':
                    p.next(); p.next()
                elif p.peek()[1] == 'addrspace':
                    p.next(); p.expect('('); p.next(); p.expect(')')
                else:
                    ct, cv = s.operand(p); cnt = (ct, cv)
            d.update(t=t, cnt=cnt, rty=TPtr(t))
        elif op == 'load':
            atomic = p.accept('atomic'); p.accept('volatile')
            t = p.type(); p.expect(','); pt, pv = s.operand(p)
            d.update(t=t, pt=pt, pv=pv, rty=t, atomic=atomic)
        elif op == 'store':
            atomic = p.accept('atomic'); p.accept('volatile')
            t, v = s.operand(p); p.expect(','); pt, pv = s.operand(p)
            d.update(t=t, v=v, pt=pt, pv=pv, atomic=atomic)
        elif op == 'getelementptr':
            p.accept('inbounds')
            bt = p.type(); p.expect(','); pt, pv = s.operand(p); idx = []
            while p.accept(','):
                p.accept('inrange')
                idx.append(s.operand(p))
            d.update(bt=bt, pt=pt, pv=pv, idx=idx)
            cur = bt
            vecres = isinstance(s.res(pt), TVec)
            for (ti, vi) in idx[1:]:
                rc = s.res(cur)
                if isinstance(rc, TStruct): cur = rc.els[vi.v]
                else: cur = rc.el
            d['rty'] = TPtr(cur)
            assert not vecres, 'vector gep'
        elif op in CASTS:
            t, v = s.operand(p); p.expect('to'); t2 = p.type()
            d.update(t=t, v=v, t2=t2, rty=t2)
        elif op in ('call', 'invoke'):
            while p.peek()[1] in FM or p.peek()[1] in ('fastcc', 'ccc', 'coldcc') or p.peek()[1] in PARAM_ATTRS or p.peek()[1] in PARAM_ATTRS_ARG:
                w = p.next()[1]
                if w in PARAM_ATTRS_ARG:
                    if p.at('('):
                        p.next(); p.next(); p.expect(')')
                    else: p.next()
            t = p.type()
            if p.peek()[1] == 'asm':
                p.next()
                while p.peek()[1] in ('sideeffect', 'alignstack', 'inteldialect', 'unwind'): p.next()
                asm_s = p.next()[1]; p.expect(','); cons = p.next()[1]
                callee = ('asm', asm_s, cons)
            else:
                callee = parse_value(p, t)
            p.expect('(')
            args = []
            while not p.at(')'):
                if p.peek()[1] == 'metadata':
                    # skip
                    while not p.at(',') and not p.at(')'): p.next()
                    args.append(None)
                else:
                    args.append(s.operand(p))
                p.accept(',')
            p.expect(')')
            rett = t.ret if isinstance(t, TFunc) else t
            d.update(ft=t, callee=callee, args=args, rty=(None if isinstance(rett, TVoid) else rett), rett=rett)
            if op == 'invoke':
                while not p.at('to'): p.next()
                p.expect('to'); p.expect('label'); d['normal'] = p.next()[1]
                p.expect('unwind'); p.expect('label'); d['unwind'] = p.next()[1]
        elif op == 'ret':
            t = p.type()
            d.update(t=t, v=(None if isinstance(t, TVoid) else parse_value(p, t)))
        elif op == 'br':
            if p.peek()[1] == 'label':
                p.next(); d.update(dest=p.next()[1], cond=None)
            else:
                t, c = s.operand(p); p.expect(','); p.expect('label'); a = p.next()[1]; p.expect(','); p.expect('label'); b = p.next()[1]
                d.update(cond=c, a=a, b=b)
        elif op == 'switch':
            t, v = s.operand(p); p.expect(','); p.expect('label'); dflt = p.next()[1]; p.expect('[')
            cases = []
            while not p.at(']'):
                ct = p.type(); cv = parse_value(p, ct); p.expect(','); p.expect('label'); cases.append((cv, p.next()[1]))
            d.update(t=t, v=v, dflt=dflt, cases=cases)
        elif op == 'unreachable':
            pass
        elif op == 'extractvalue':
            t, v = s.operand(p); idx = []
            while p.accept(','): idx.append(int(p.next()[1]))
            cur = t
            for i in idx:
                rc = s.res(cur); cur = rc.els[i] if isinstance(rc, TStruct) else rc.el
            d.update(t=t, v=v, idx=idx, rty=cur)
        elif op == 'insertvalue':
            t, v = s.operand(p); p.expect(','); et, ev = s.operand(p); idx = []
            while p.accept(','): idx.append(int(p.next()[1]))
            d.update(t=t, v=v, et=et, ev=ev, idx=idx, rty=t)
        elif op == 'extractelement':
            t, v = s.operand(p); p.expect(','); it, iv = s.operand(p)
            d.update(t=t, v=v, it=it, iv=iv, rty=s.res(t).el)
        elif op == 'insertelement':
            t, v = s.operand(p); p.expect(','); et, ev = s.operand(p); p.expect(','); it, iv = s.operand(p)
            d.update(t=t, v=v, et=et, ev=ev, it=it, iv=iv, rty=t)
        elif op == 'shufflevector':
            t, a = s.operand(p); p.expect(','); t2, b = s.operand(p); p.expect(','); mt, mv = s.operand(p)
            d.update(t=t, a=a, b=b, mt=mt, mv=mv, rty=TVec(s.res(mt).n, s.res(t).el))
        elif op == 'landingpad':
            t = p.type(); clauses = []; cleanup = False
            while not p.eof():
                w = p.next()[1]
                if w == 'cleanup': cleanup = True
                elif w == 'catch':
                    ct, cv = s.operand(p); clauses.append(('catch', cv))
                elif w == 'filter':
                    ct, cv = s.operand(p); clauses.append(('filter', cv))
            d.update(t=t, clauses=clauses, cleanup=cleanup, rty=t)
        elif op == 'resume':
            t, v = s.operand(p); d.update(t=t, v=v)
        elif op == 'atomicrmw':
            p.accept('volatile'); rop = p.next()[1]; pt, pv = s.operand(p); p.expect(','); t, v = s.operand(p)
            d.update(rop=rop, pt=pt, pv=pv, t=t, v=v, rty=t)
        elif op == 'cmpxchg':
            p.accept('weak'); p.accept('volatile'); pt, pv = s.operand(p); p.expect(','); t, cmpv = s.operand(p); p.expect(','); t2, newv = s.operand(p)
            d.update(pt=pt, pv=pv, t=t, cmp=cmpv, new=newv, rty=TStruct([t, TInt(1)], False))
        elif op == 'fence':
            pass
        elif op == 'freeze':
            t, v = s.operand(p); d.update(t=t, v=v, rty=t)
        else:
            raise NotImplementedError('instruction ' + op)
        return d

    # -- pass 2: emit
    def edge(s, frm, to):
        """phi copies + goto"""
        phis = [i for i in s.parsed[to] if i['op'] == 'phi']
        if not phis:
            return s.jump(to, frm)
        pre = []; post = []
        for i in phis:
            val = None
            for (v, lab) in i['inc']:
                if lab == frm: val = v
            assert val is not None, (frm, to, i)
            if isinstance(val, VUndef):
                continue
            tn = s.tmp()
            pre.append('%s %s = %s;' % (s.cty(i['t']), tn, s.V(i['t'], val)))
            post.append('%s = %s;' % (s.loc(i['res']), tn))
        return '{ %s %s %s }' % (' '.join(pre), ' '.join(post), s.jump(to, frm))

    def jump(s, to, frm=None):
        if s.disp and (frm, to) in s.backedges: return '{ pc_ = %d; continue; }' % s.bidx[to]
        return 'goto %s;' % s.lab(to)

    def lab(s, l): return 'L_' + san(l)

    def succs(s, b):
        tg = []
        for ins in s.parsed[b.label]:
            if ins['op'] == 'br': tg += [ins['dest']] if ins['cond'] is None else [ins['a'], ins['b']]
            elif ins['op'] == 'switch': tg += [ins['dflt']] + [l for _, l in ins['cases']]
            elif ins['op'] == 'invoke': tg += [ins['normal'], ins['unwind']]
        return tg

    def irreducible(s):
        labels = [b.label for b in s.f.blocks]
        succ = {b.label: s.succs(b) for b in s.f.blocks}
        entry = labels[0]
        # dominators (iterative)
        pred = {l: [] for l in labels}
        for u in labels:
            for v in succ[u]: pred[v].append(u)
        # reachable + DFS order
        order = []; seen = set(); state = {}
        back = []
        stack = [(entry, iter(succ[entry]))]; seen.add(entry); state[entry] = 1
        while stack:
            u, it = stack[-1]
            adv = False
            for v in it:
                if v not in seen:
                    seen.add(v); state[v] = 1; stack.append((v, iter(succ[v]))); adv = True; break
                elif state.get(v) == 1:
                    back.append((u, v))
            if not adv:
                state[u] = 2; order.append(u); stack.pop()
        rpo = order[::-1]
        idx = {l: i for i, l in enumerate(rpo)}
        dom = {l: None for l in rpo}; dom[entry] = {entry}
        allset = set(rpo)
        for l in rpo:
            if l != entry: dom[l] = set(allset)
        ch = True
        while ch:
            ch = False
            for l in rpo:
                if l == entry: continue
                ps = [dom[p] for p in pred[l] if p in idx]
                nd = set.intersection(*ps) if ps else set()
                nd = nd | {l}
                if nd != dom[l]: dom[l] = nd; ch = True
        s.rpo = rpo; s.backedges = set(back)
        for (u, v) in back:
            if v not in dom[u]: return True
        return False

    def count_backedges(s):
        n = 0
        for i, b in enumerate(s.f.blocks):
            for ins in s.parsed[b.label]:
                tg = []
                if ins['op'] == 'br': tg = [ins['dest']] if ins['cond'] is None else [ins['a'], ins['b']]
                elif ins['op'] == 'switch': tg = [ins['dflt']] + [l for _, l in ins['cases']]
                elif ins['op'] == 'invoke': tg = [ins['normal'], ins['unwind']]
                for t in tg:
                    if s.bidx[t] <= i: n += 1
        return n

    def emit(s):
        s.parse_all()
        em = s.em
        out = s.lines
        if s.conc: return s.emit_conc()
        s.bidx = {b.label: i for i, b in enumerate(s.f.blocks)}
        nm = s.f.name[1:].strip('"')
        s.disp = False
        irr = s.irreducible()   # also computes s.rpo / s.backedges
        if em.o.dispatch:
            for d in em.o.dispatch:
                if d == 'auto':
                    if irr: s.disp = True
                elif d in nm: s.disp = True
        if s.disp:
            out.append('uint32_t pc_ = 0;')
            out.append('for (;;) { switch (pc_) {')
        blocks = [s.blocks[l] for l in s.rpo]
        if s.disp:
            heads = set(v for (u, v) in s.backedges)
        for b in blocks:
            if s.disp and (b.label in heads or b is s.f.blocks[0]): out.append('case %d: ;' % s.bidx[b.label])
            out.append('%s: ;' % s.lab(b.label))
            for ins in s.parsed[b.label]:
                s.emit_ins(b, ins)
        if s.disp:
            out.append('default: __CPROVER_assume(0); } }')
        # declarations
        decl = []
        pnames = set(nm for (_, nm) in s.f.params)
        for nm, t in s.types.items():
            if nm in pnames or t is None: continue
            em.need_complete(t)
            decl.append('  %s %s;' % (s.cty(t), s.loc(nm)))
        return decl + s.decls + ['  ' + l for l in out]

    # ---- lazy sequentialisation (DESIGN 1.3): a yielding function is a resumable step function over a static per-thread frame
    def yield_point(s, pend):
        """publish the pending visible operation, return to the scheduler, resume here when the thread is scheduled again"""
        s.nyield += 1; k = s.nyield
        s.lines.append('%s f_->pc_ = %d; return 0; R_%d: ;' % (pend, k, k))

    def frame_name(s, fname=None):
        return 'FR_' + san(fname or s.f.name)

    def emit_conc(s):
        em = s.em; out = s.lines
        s.disp = False
        s.irreducible()
        blocks = [s.blocks[l] for l in s.rpo]
        for b in blocks:
            out.append('%s: ;' % s.lab(b.label))
            for ins in s.parsed[b.label]:
                s.emit_ins(b, ins)
        fields = ['uint32_t pc_;']
        for (t, nm) in s.f.params:
            em.need_complete(t); fields.append('%s v_%s;' % (s.cty(t), san(nm)))
        pnames = set(nm for (_, nm) in s.f.params)
        for nm, t in s.types.items():
            if nm in pnames or t is None: continue
            em.need_complete(t); fields.append('%s v_%s;' % (s.cty(t), san(nm)))
        if not isinstance(s.f.ret, TVoid):
            em.need_complete(s.f.ret); fields.append('%s ret_;' % s.cty(s.f.ret))
        fields += s.frame_extra
        fr = s.frame_name()
        em.frame_decls.append('struct %s { %s };\nstatic struct %s fr_%s[VERIF_NT];' % (fr, ' '.join(fields), fr, san(s.f.name)))
        head = ['  struct %s* f_ = &fr_%s[verif_cur];' % (fr, san(s.f.name)), '  switch (f_->pc_) { case 0: break;']
        for k in range(1, s.nyield + 1): head.append('  case %d: goto R_%d;' % (k, k))
        head.append('  default: __CPROVER_assume(0); }')
        return head + s.decls + ['  ' + l for l in out]

    def zero(s, t):
        rt = s.res(t)
        if isinstance(rt, TVoid): return ''
        if isinstance(rt, (TInt, TFloat, TPtr)): return '(%s)0' % s.cty(t)
        return '(%s){0}' % s.cty(t)

    def ret_zero(s):
        if s.conc: return 'return 1;'
        if isinstance(s.f.ret, TVoid): return 'return;'
        return 'return %s;' % s.zero(s.f.ret)

    def vec_each(s, ins, fn):
        """elementwise vector op"""
        rt = s.res(ins['rty']); r = s.loc(ins['res'])
        for i in range(rt.n):
            s.lines.append('%s.a[%d] = %s;' % (r, i, fn(i)))

    def emit_ins(s, b, ins):
        op = ins['op']; out = s.lines; em = s.em
        r = s.loc(ins['res']) if ins['res'] else None
        if op == 'sub' and isinstance(ins['a'], VLocal) and isinstance(ins['b'], VLocal) and \
                s.defs.get(ins['a'].name, {}).get('op') == 'ptrtoint' and s.defs.get(ins['b'].name, {}).get('op') == 'ptrtoint' and isinstance(s.res(ins['t']), TInt) and s.res(ins['t']).n == 64:
            # ptrtoint(p) - ptrtoint(q): emitted as a pointer difference, which the model checker can fold when both point into the same object
            da, db = s.defs[ins['a'].name], s.defs[ins['b'].name]
            pa, pb = s.V(da['t'], da['v']), s.V(db['t'], db['v'])
            out.append('%s = (%s != 0 && %s != 0) ? (uint64_t)((const uint8_t*)%s - (const uint8_t*)%s) : (uint64_t)((uint64_t)(uintptr_t)%s - (uint64_t)(uintptr_t)%s);' % (r, pa, pb, pa, pb, pa, pb))
        elif op in BINOPS:
            rt = s.res(ins['t'])
            a = s.V(ins['t'], ins['a']); bb = s.V(ins['t'], ins['b'])
            if isinstance(rt, TVec):
                s.vec_each(ins, lambda i: em.binop(op, rt.el, '%s.a[%d]' % (a, i), '%s.a[%d]' % (bb, i)))
            else:
                out.append('%s = %s;' % (r, em.binop(op, ins['t'], a, bb)))
        elif op == 'fneg':
            out.append('%s = -%s;' % (r, s.V(ins['t'], ins['a'])))
        elif op == 'icmp':
            rt = s.res(ins['t'])
            a = s.V(ins['t'], ins['a']); bb = s.V(ins['t'], ins['b'])
            if isinstance(rt, TVec):
                s.vec_each(ins, lambda i: em.icmp(ins['pred'], rt.el, '%s.a[%d]' % (a, i), '%s.a[%d]' % (bb, i)))
            else:
                out.append('%s = %s;' % (r, em.icmp(ins['pred'], ins['t'], a, bb)))
        elif op == 'fcmp':
            a = s.V(ins['t'], ins['a']); bb = s.V(ins['t'], ins['b']); pr = ins['pred']
            o = {'oeq': '==', 'ogt': '>', 'oge': '>=', 'olt': '<', 'ole': '<=', 'une': '!='}
            if pr in o: e = '(%s %s %s)' % (a, o[pr], bb)
            elif pr == 'one': e = '(%s < %s || %s > %s)' % (a, bb, a, bb)
            elif pr == 'ord': e = '(%s == %s && %s == %s)' % (a, a, bb, bb)
            elif pr == 'uno': e = '(%s != %s || %s != %s)' % (a, a, bb, bb)
            elif pr in ('ueq', 'ugt', 'uge', 'ult', 'ule'):
                oo = {'ueq': '==', 'ugt': '>', 'uge': '>=', 'ult': '<', 'ule': '<='}[pr]
                e = '(%s != %s || %s != %s || %s %s %s)' % (a, a, bb, bb, a, oo, bb)
            elif pr == 'true': e = '1'
            elif pr == 'false': e = '0'
            else: raise NotImplementedError(pr)
            out.append('%s = %s;' % (r, e))
        elif op == 'select':
            rt = s.res(ins['t']); c = s.V(ins['tc'], ins['c']); a = s.V(ins['t'], ins['a']); bb = s.V(ins['t'], ins['b'])
            if isinstance(s.res(ins['tc']), TVec):
                s.vec_each(ins, lambda i: '(%s.a[%d] ? %s.a[%d] : %s.a[%d])' % (c, i, a, i, bb, i))
            else:
                out.append('%s = %s ? %s : %s;' % (r, c, a, bb))
        elif op == 'phi':
            pass
        elif op == 'freeze':
            out.append('%s = %s;' % (r, s.V(ins['t'], ins['v'])))
        elif op == 'alloca':
            em.need_complete(ins['t'])
            an = 'a_' + san(ins['res'])
            if s.conc:
                assert ins['cnt'] is None or isinstance(ins['cnt'][1], VInt), 'dynamic alloca in a yielding function'
                k_ = 1 if ins['cnt'] is None else ins['cnt'][1].v
                s.frame_extra.append('%s %s[%d];' % (s.cty(ins['t']), an, k_))
                out.append('%s = &f_->%s[0];' % (r, an))
            elif ins['cnt'] is not None and not (isinstance(ins['cnt'][1], VInt) and ins['cnt'][1].v == 1):
                cv = ins['cnt'][1]
                if isinstance(cv, VInt):
                    s.decls.append('  %s %s[%d];' % (s.cty(ins['t']), an, cv.v))
                    out.append('%s = &%s[0];' % (r, an))
                else:
                    out.append('%s = (%s*)malloc(sizeof(%s) * %s);' % (r, s.cty(ins['t']), s.cty(ins['t']), s.V(*ins['cnt'])))
            else:
                s.decls.append('  %s %s;' % (s.cty(ins['t']), an))
                out.append('%s = &%s;' % (r, an))
        elif op == 'load':
            em.need_complete(ins['t'])
            if ins.get('atomic') and s.conc and em.o.yield_atomics:
                # spin loops: re-loading the same atomic while nobody has written any atomic is a stutter step; the thread stays disabled until the
                # global atomic-write epoch changes (turns livelock into the deadlock check and keeps schedules finite)
                em.load_sites = getattr(em, 'load_sites', 0) + 1   # a stutter needs the same program point (a loop re-executing this very load)
                s.yield_point('verif_pend_load((void*)%s, %dU);' % (s.V(ins['pt'], ins['pv']), em.load_sites)); out.append('verif_did_load((void*)%s, %dU);' % (s.V(ins['pt'], ins['pv']), em.load_sites))
            op_ = s.unpun_ptr(ins['t'], ins['pv'])
            if op_ is not None: out.append('%s = (%s)*%s;' % (r, s.cty(ins['t']), op_[0]))
            else: out.append('%s = *%s;' % (r, s.V(ins['pt'], ins['pv'])))
        elif op == 'store':
            if ins.get('atomic') and s.conc and em.o.yield_atomics: s.yield_point('verif_pend_run();')
            op_ = s.unpun_ptr(ins['t'], ins['pv'])
            if op_ is not None: out.append('*%s = (%s)%s;' % (op_[0], op_[1], s.V(ins['t'], ins['v'])))
            else: out.append('*%s = %s;' % (s.V(ins['pt'], ins['pv']), s.V(ins['t'], ins['v'])))
            if ins.get('atomic') and em.o.conc: out.append('verif_atomic_epoch++;')
        elif op == 'getelementptr':
            e, cur = em.gep_expr(ins['bt'], s.V(ins['pt'], ins['pv']), ins['idx'], s.loc)
            out.append('%s = %s;' % (r, e))
        elif op in CASTS:
            s.emit_cast(ins, r)
        elif op in ('call', 'invoke'):
            s.emit_call(b, ins, r)
        elif op == 'ret':
            if s.conc:
                if ins['v'] is not None: out.append('f_->ret_ = %s;' % s.V(ins['t'], ins['v']))
                out.append('f_->pc_ = 0; return 1;')
            elif ins['v'] is None: out.append('return;')
            else: out.append('return %s;' % s.V(ins['t'], ins['v']))
        elif op == 'br':
            if ins['cond'] is None:
                out.append(s.edge(b.label, ins['dest']))
            else:
                out.append('if (%s) %s else %s' % (s.V(TInt(1), ins['cond']), s.edge(b.label, ins['a']), s.edge(b.label, ins['b'])))
        elif op == 'switch':
            v = s.V(ins['t'], ins['v'])
            for (cv, lab) in ins['cases']:
                out.append('if (%s == %s) %s' % (v, s.V(ins['t'], cv), s.edge(b.label, lab)))
            out.append(s.edge(b.label, ins['dflt']))
        elif op == 'unreachable':
            out.append('__CPROVER_assume(0); %s' % s.ret_zero())
        elif op == 'extractvalue':
            e = s.V(ins['t'], ins['v']); cur = ins['t']
            for i in ins['idx']:
                rc = s.res(cur)
                if isinstance(rc, TStruct): e = '%s.f%d' % (e, i); cur = rc.els[i]
                else: e = '%s.a[%d]' % (e, i); cur = rc.el
            out.append('%s = %s;' % (r, e))
        elif op == 'insertvalue':
            if not isinstance(ins['v'], VUndef):
                out.append('%s = %s;' % (r, s.V(ins['t'], ins['v'])))
            e = r; cur = ins['t']
            for i in ins['idx']:
                rc = s.res(cur)
                if isinstance(rc, TStruct): e = '%s.f%d' % (e, i); cur = rc.els[i]
                else: e = '%s.a[%d]' % (e, i); cur = rc.el
            out.append('%s = %s;' % (e, s.V(ins['et'], ins['ev'])))
        elif op == 'extractelement':
            out.append('%s = %s.a[%s];' % (r, s.V(ins['t'], ins['v']), em.sidx(ins['it'], ins['iv'], s.loc)))
        elif op == 'insertelement':
            if not isinstance(ins['v'], VUndef):
                out.append('%s = %s;' % (r, s.V(ins['t'], ins['v'])))
            out.append('%s.a[%s] = %s;' % (r, em.sidx(ins['it'], ins['iv'], s.loc), s.V(ins['et'], ins['ev'])))
        elif op == 'shufflevector':
            n = s.res(ins['t']).n
            a = s.V(ins['t'], ins['a']) if not isinstance(ins['a'], VUndef) else None
            bb = s.V(ins['t'], ins['b']) if not isinstance(ins['b'], VUndef) else None
            mv = ins['mv']
            rn = s.res(ins['mt']).n
            if isinstance(mv, (VZero, VUndef)): mask = [0] * rn
            else: mask = [(e[1].v if isinstance(e[1], VInt) else -1) for e in mv.els]
            for i, mi in enumerate(mask):
                if mi < 0: continue
                src = ('%s.a[%d]' % (a, mi)) if mi < n else ('%s.a[%d]' % (bb, mi - n))
                if (mi < n and a is None) or (mi >= n and bb is None): continue
                out.append('%s.a[%d] = %s;' % (r, i, src))
        elif op == 'landingpad':
            # selector computation
            out.append('%s.f0 = (uint8_t*)verif_exc_obj;' % r)
            sel = '0'
            conds = []
            for (kind, cv) in ins['clauses']:
                if kind != 'catch': continue
                if isinstance(cv, VNull):
                    conds.append(('1', '1'))
                else:
                    tn = s.ti_name(cv)
                    conds.append(('verif_exc_match(%s)' % tn, 'verif_typeid(%s)' % tn))
            e = '0'
            for (c, v) in reversed(conds):
                e = '(%s ? %s : %s)' % (c, v, e)
            out.append('%s.f1 = (uint32_t)%s;' % (r, e))
            out.append('verif_exc = 0;')
            if not ins['cleanup'] and not any(c == '1' for c, _ in conds):
                # no cleanup and no match: propagate
                out.append('if (%s.f1 == 0) { verif_exc = 1; %s }' % (r, s.ret_zero()))
        elif op == 'resume':
            out.append('verif_exc = 1; %s' % s.ret_zero())
        elif op == 'atomicrmw':
            pv = s.V(ins['pt'], ins['pv']); v = s.V(ins['t'], ins['v'])
            if s.conc and em.o.yield_atomics: s.yield_point('verif_pend_run();')
            out.append('%s = *%s;' % (r, pv))
            rop = ins['rop']
            if rop == 'xchg': nv = v
            elif rop in ('add', 'sub', 'and', 'or', 'xor'): nv = em.binop(rop, ins['t'], r, v)
            elif rop in ('max', 'min', 'umax', 'umin'):
                pr = {'max': 'sgt', 'min': 'slt', 'umax': 'ugt', 'umin': 'ult'}[rop]
                nv = '(%s ? %s : %s)' % (em.icmp(pr, ins['t'], r, v), r, v)
            else: raise NotImplementedError(rop)
            out.append('*%s = %s;' % (pv, nv))
            if em.o.conc: out.append('verif_atomic_epoch++;')
        elif op == 'cmpxchg':
            pv = s.V(ins['pt'], ins['pv'])
            if s.conc and em.o.yield_atomics: s.yield_point('verif_pend_run();')
            out.append('%s.f0 = *%s; %s.f1 = (%s.f0 == %s); if (%s.f1) *%s = %s;' % (r, pv, r, r, s.V(ins['t'], ins['cmp']), r, pv, s.V(ins['t'], ins['new'])))
            if em.o.conc: out.append('verif_atomic_epoch++;')
        elif op == 'fence':
            pass
        else:
            raise NotImplementedError(op)

    def ti_name(s, cv):
        # typeinfo operand: bitcast (... @_ZTI... to i8*) or @_ZTI
        v = cv
        while isinstance(v, VCE): v = v.args[0][1]
        assert isinstance(v, VGlobal), v
        s.em.eh_ids.setdefault(v.name, len(s.em.eh_ids) + 1)
        return '(&%s)' % s.em.gname(v.name)

    def emit_cast(s, ins, r):
        op = ins['op']; t = ins['t']; t2 = ins['t2']; em = s.em; out = s.lines
        rt = s.res(t); rt2 = s.res(t2)
        v = s.V(t, ins['v'])
        if isinstance(rt, TVec) or isinstance(rt2, TVec):
            if op == 'bitcast':
                out.append('memcpy(&%s, &(%s){%s}, sizeof(%s));' % (r, s.cty(t), '0', s.cty(t2)) if False else
                           '{ %s tmpc_ = %s; memcpy(&%s, &tmpc_, sizeof(%s)); }' % (s.cty(t), v, r, s.cty(t2)))
                return
            n = rt2.n
            for i in range(n):
                out.append('%s.a[%d] = %s;' % (r, i, s.cast1(op, rt.el, rt2.el, '%s.a[%d]' % (v, i))))
            return
        if op == 'bitcast' and not isinstance(rt, TPtr):
            # int<->float reinterpret
            out.append('{ %s tmpc_ = %s; memcpy(&%s, &tmpc_, sizeof(%s)); }' % (s.cty(t), v, r, s.cty(t2)))
            return
        out.append('%s = %s;' % (r, s.cast1(op, t, t2, v)))

    def cast1(s, op, t, t2, v):
        em = s.em; c2 = s.cty(t2)
        rt = s.res(t); rt2 = s.res(t2)
        if op in ('bitcast', 'addrspacecast'): return '(%s)%s' % (c2, v)
        if op == 'trunc':
            if rt2.n == 1: return '(_Bool)(%s & 1)' % v
            return '(%s)%s' % (c2, v)
        if op == 'zext': return '(%s)%s' % (c2, v)
        if op == 'sext':
            if rt.n == 1: return '(%s)(%s ? -1 : 0)' % (c2, v)
            return '(%s)(%s)(%s)%s' % (c2, em.sty(t2), em.sty(t), v)
        if op == 'ptrtoint': return '(%s)(uintptr_t)%s' % (c2, v)
        if op == 'inttoptr': return '(%s)(uintptr_t)%s' % (c2, v)
        if op in ('uitofp', 'fpext', 'fptrunc', 'fptoui'): return '(%s)%s' % (c2, v)
        if op == 'sitofp': return '(%s)(%s)%s' % (c2, em.sty(t), v)
        if op == 'fptosi': return '(%s)(%s)%s' % (c2, em.sty(t2), v)
        raise NotImplementedError(op)

    def typed_alloc(s, ins):
        """operator new whose result is bitcast to T*: emit malloc(sizeof(T) * count) so that CBMC builds a typed,
        field-sensitive object (DESIGN 1.2).  Returns the C size expression or None."""
        if s.em.o.no_typed_malloc: return None
        if not hasattr(s, 'cast_users'):
            s.cast_users = {}
            for b in s.f.blocks:
                for i2 in s.parsed[b.label]:
                    if i2['op'] == 'bitcast' and isinstance(i2['v'], VLocal):
                        s.cast_users.setdefault(i2['v'].name, []).append(i2)
        szt, szv = ins['args'][0]
        if not hasattr(s, 'gep8_users'):
            s.gep8_users = {}
            for b in s.f.blocks:
                for i2 in s.parsed[b.label]:
                    if i2['op'] == 'getelementptr' and isinstance(i2['pv'], VLocal) and len(i2['idx']) == 1 and isinstance(i2['idx'][0][1], VInt) and i2['idx'][0][1].v == 8 \
                            and isinstance(s.res(i2['bt']), TInt) and s.res(i2['bt']).n == 8:
                        s.gep8_users.setdefault(i2['pv'].name, []).append(i2)
        if not hasattr(s, 'store_elem'):
            # value stored through a pointer that is a bitcast of T**: the value is a T*
            s.store_elem = {}
            for b in s.f.blocks:
                for i2 in s.parsed[b.label]:
                    if i2['op'] == 'store' and isinstance(i2['v'], VLocal) and isinstance(i2['pv'], VLocal):
                        d2 = s.defs.get(i2['pv'].name)
                        if d2 is not None and d2['op'] == 'bitcast':
                            t0 = s.res(d2['t'])
                            if isinstance(t0, TPtr) and isinstance(s.res(t0.to), TPtr):
                                s.store_elem.setdefault(i2['v'].name, []).append(dict(t2=t0.to))
        cap = s.em.o.alloc_cap
        # array new with a cookie: new T[n] for T with a non-trivial destructor stores n in the 8 bytes before the array.
        # With --alloc-cap the block becomes struct { uint64_t cookie; T a[k]; } so that the elements stay typed objects.
        if cap and isinstance(szv, VLocal) and any(isinstance(s.res(u['t2']), TPtr) and isinstance(s.res(s.res(u['t2']).to), TInt) and s.res(s.res(u['t2']).to).n == 64 for u in s.cast_users.get(ins['res'], [])):
            for g in s.gep8_users.get(ins['res'], []):
                for u in s.cast_users.get(g['res'], []) + s.store_elem.get(g['res'], []):
                    t2 = s.res(u['t2'])
                    if not isinstance(t2, TPtr): continue
                    et = t2.to; ret = s.res(et)
                    if not isinstance(ret, (TStruct,)): continue
                    esz = s.em.size_align(et)[0]
                    if esz <= 0 or s.em.size_align(et)[1] > 8: continue
                    s.em.need_complete(et); ct = s.cty(et); k = max(1, (cap - 8) // esz)
                    nm = 'verif_CK%d' % len(s.em.cookie_structs)
                    for nm2, (ct2, k2) in s.em.cookie_structs.items():
                        if (ct2, k2) == (ct, k): nm = nm2
                    s.em.cookie_structs[nm] = (ct, k)
                    s.lines.append('__CPROVER_assert((uint64_t)%s <= %dULL, "modelling bound: variable-size allocation within --alloc-cap");' % (s.V(szt, szv), 8 + k * esz))
                    return 'sizeof(struct %s)' % nm
        def rank(u):
            # prefer the struct type that fills the block exactly (a node viewed through its header fields first would otherwise become uint16_t[n]), then structs, then pointers
            t2 = s.res(u['t2'])
            if not isinstance(t2, TPtr): return 9
            ret = s.res(t2.to)
            if isinstance(ret, TStruct): return 0 if (isinstance(szv, VInt) and s.em.size_align(t2.to)[0] == szv.v) else 1
            return 2 if isinstance(ret, TPtr) else 3
        for u in sorted(s.cast_users.get(ins['res'], []) + s.store_elem.get(ins['res'], []), key=rank):
            t2 = s.res(u['t2'])
            if not isinstance(t2, TPtr): continue
            et = t2.to; ret = s.res(et)
            if isinstance(ret, (TFunc, TVoid, TOther)) or (isinstance(ret, TNamed)): continue
            if isinstance(ret, TInt) and ret.n == 8: continue
            esz = s.em.size_align(et)[0]
            if esz <= 0: continue
            s.em.need_complete(et)
            ct = s.cty(et)
            if isinstance(szv, VInt):
                if szv.v % esz == 0 and szv.v > 0:
                    k = szv.v // esz
                    return 'sizeof(%s)' % ct if k == 1 else 'sizeof(%s) * %d' % (ct, k)
                continue
            if isinstance(szv, VLocal):
                d = s.defs.get(szv.name)
                if d is None: continue
                cnt = None
                if d['op'] == 'mul' and isinstance(d['b'], VInt) and d['b'].v == esz: cnt = s.V(d['t'], d['a'])
                elif d['op'] == 'shl' and isinstance(d['b'], VInt) and (1 << d['b'].v) == esz: cnt = s.V(d['t'], d['a'])
                elif esz == 1: cnt = s.V(szt, szv)
                if cnt is not None:
                    cap = s.em.o.alloc_cap
                    if cap:
                        k = max(1, cap // esz)
                        s.lines.append('__CPROVER_assert((uint64_t)%s <= %dULL, "modelling bound: variable-size allocation within --alloc-cap");' % (cnt, k))
                        return 'sizeof(%s) * %d' % (ct, k)
                    return 'sizeof(%s) * (uint64_t)%s' % (ct, cnt)
                if cap and esz > 1 and not isinstance(ret, TInt):
                    # size not of the form count * sizeof(T) (e.g. a byte difference): the capped block is still an array of T
                    k = max(1, cap // esz)
                    s.lines.append('__CPROVER_assert((uint64_t)%s <= %dULL, "modelling bound: variable-size allocation within --alloc-cap");' % (s.V(szt, szv), k * esz))
                    return 'sizeof(%s) * %d' % (ct, k)
        return None

    def unpun_ptr(s, t, pv):
        """pointer load/store through a bitcast `U** -> T**` (clang's canonical form for moving a pointer without caring about its pointee):
        access the slot with its own type and cast the *value*; CBMC treats a pointer-typed access through a differently typed pointer as a
        byte_extract over the whole enclosing object (measured: minutes per store into a thread frame).  Returns (C pointer expr, C slot type) or None."""
        if not isinstance(s.res(t), TPtr) or not isinstance(pv, VLocal): return None
        d = s.defs.get(pv.name)
        if d is None or d['op'] != 'bitcast' or not isinstance(d['v'], VLocal): return None
        t0 = s.res(d['t'])
        if not isinstance(t0, TPtr) or not isinstance(s.res(t0.to), TPtr): return None
        if isinstance(s.res(s.res(t0.to).to), (TFunc,)): return None
        return (s.V(d['t'], d['v']), s.cty(t0.to))

    def elem_type_of(s, v):
        """pointee type behind an i8* operand: looks through bitcast / zero-gep definitions"""
        for _ in range(4):
            if not isinstance(v, VLocal): return None
            d = s.defs.get(v.name)
            if d is None: return None
            if d['op'] == 'bitcast':
                t = s.res(d['t'])
                if isinstance(t, TPtr) and not (isinstance(s.res(t.to), TInt) and s.res(t.to).n == 8):
                    return t.to
                v = d['v']; continue
            if d['op'] == 'getelementptr':
                t = d['rty'].to
                rt = s.res(t)
                if isinstance(rt, TInt) and rt.n == 8:
                    # gep to first byte-field of a struct: use the struct type if all trailing indices are zero
                    return None
                return t
            return None
        return None

    def strarg(s, tv):
        """if operand is a pointer to a constant string global, return its text"""
        if tv is None: return None
        t, v = tv
        while isinstance(v, VCE) and v.op in ('getelementptr', 'bitcast'): v = v.args[0][1]
        if isinstance(v, VGlobal):
            g = s.m.globals.get(v.name)
            if g and isinstance(g.get('init'), VCStr):
                return g['init'].b.rstrip(b'\0').decode('latin1')
        return None

    def emit_call(s, b, ins, r):
        em = s.em; out = s.lines
        callee = ins['callee']; args = ins['args']
        A = [s.V(t, v) for (t, v) in [a for a in args if a is not None]]
        done = False
        may_throw = True
        if isinstance(callee, tuple):   # inline asm
            asm_s = callee[1].strip('"'); may_throw = False
            m_ = re.match(r'(rol|ror)([lq]) %cl,\$0', asm_s)
            if m_:
                w = 32 if m_.group(2) == 'l' else 64
                x, c = A[0], A[1]
                c = '((uint32_t)%s & %d)' % (c, w - 1)
                ty = 'uint%d_t' % w
                if m_.group(1) == 'rol': e = '(%s)((%s << %s) | (%s >> ((%d - %s) & %d)))' % (ty, x, c, x, w, c, w - 1)
                else: e = '(%s)((%s >> %s) | (%s << ((%d - %s) & %d)))' % (ty, x, c, x, w, c, w - 1)
                out.append('%s = %s;' % (r, e))
            elif asm_s == '':
                if r: out.append('%s = %s;' % (r, A[0] if A else s.zero(ins['rty'])))
            else:
                raise NotImplementedError('inline asm %r' % asm_s)
            done = True
        elif isinstance(callee, VGlobal) and s.conc and s.emit_conc_call(ins, callee, A, r):
            done = True
        elif isinstance(callee, VGlobal):
            n = callee.name[1:]
            if n.startswith('"'): n = n[1:-1]
            h = s.intrinsic(n, ins, A, r)
            if h is not None:
                may_throw = h; done = True
        if not done and s.conc and not isinstance(callee, (VGlobal, tuple)):
            done = s.emit_conc_call(ins, callee, A, r)
        if not done:
            if isinstance(callee, VGlobal) and callee.name in s.m.funcs:
                fn = em.fname(callee.name)
                f = s.m.funcs[callee.name]
                # cast args to declared param types if differing (bitcast'd callee)
                call = '%s(%s)' % (fn, ', '.join(A))
            else:
                ft = ins['ft']
                if not isinstance(ft, TFunc):
                    ft = TFunc(ins['rett'], [a[0] for a in args if a is not None], False)
                fpt = em.fptr_ty(ft)
                cv = s.V(TPtr(ft), callee)
                call = '((%s)%s)(%s)' % (fpt, cv, ', '.join(A))
            if r: out.append('%s = %s;' % (r, call))
            else: out.append('%s;' % call)
        if ins['op'] == 'invoke':
            if may_throw:
                out.append('if (verif_exc) %s else %s' % (s.edge(b.label, ins['unwind']), s.edge(b.label, ins['normal'])))
            else:
                out.append(s.edge(b.label, ins['normal']))
        elif may_throw:
            out.append('if (verif_exc) %s' % s.ret_zero())

    def conc_start(s, gname, A):
        """initialise the callee's frame for the current thread"""
        g = s.m.funcs[gname]; out = s.lines
        for (t, nm), a in zip(g.params, A):
            out.append('fr_%s[verif_cur].v_%s = %s;' % (san(gname), san(nm), a))
        out.append('fr_%s[verif_cur].pc_ = 0;' % san(gname))

    def emit_conc_call(s, ins, callee, A, r):
        """calls inside a yielding function: scheduler primitives, direct and indirect calls of yielding functions. Returns True if handled."""
        em = s.em; out = s.lines
        if isinstance(callee, VGlobal):
            n = callee.name[1:].strip('"')
            if n == 'verif_mutex_lock':
                s.yield_point('verif_pend_lock((void*)%s);' % A[0]); out.append('verif_do_lock((void*)%s);' % A[0]); return True
            if n == 'verif_cv_wait':
                out.append('verif_do_unlock((void*)%s); verif_cv_enqueue((void*)%s);' % (A[1], A[0]))
                s.yield_point('verif_pend_waitcv((void*)%s);' % A[0])
                s.yield_point('verif_pend_lock((void*)%s);' % A[1]); out.append('verif_do_lock((void*)%s);' % A[1]); return True
            if n == 'verif_thread_join':
                s.yield_point('verif_pend_join(%s);' % A[0]); return True
            if n == 'verif_yield':
                return True   # std::this_thread::yield(): no visible effect; context switches happen at the surrounding visible operations anyway
            if callee.name in em.yielding:
                g = s.m.funcs[callee.name]
                s.conc_start(callee.name, A)
                s.nyield += 1; k = s.nyield
                out.append('R_%d: if (!S_%s()) { f_->pc_ = %d; return 0; }' % (k, san(callee.name), k))
                if r: out.append('%s = fr_%s[verif_cur].ret_;' % (r, san(callee.name)))
                return True
            return False
        # indirect call: dispatch over the address-taken yielding functions of the same type
        ft = ins['ft']
        if not isinstance(ft, TFunc): ft = TFunc(ins['rett'], [a[0] for a in ins['args'] if a is not None], False)
        cands = [g for g in em.addr_taken_yielding if g not in em.spawn_entries and tkey(TFunc(s.m.funcs[g].ret, [t for (t, _) in s.m.funcs[g].params], s.m.funcs[g].va)) == tkey(ft)]
        def reaches(a, b):
            seen = set(); work = [a]
            while work:
                x = work.pop()
                if x == b: return True
                if x in seen: continue
                seen.add(x); work += list(em.conc_edges.get(x, ()))
            return False
        excluded = [g for g in cands if reaches(g, s.f.name)]
        cands = [g for g in cands if g not in excluded]
        for g in cands: em.conc_edges.setdefault(s.f.name, set()).add(g)
        if not cands: return False
        s.nyield += 1; k = s.nyield
        fpt = em.fptr_ty(ft); cv = s.V(TPtr(ft), callee)
        fld = 'cs%d_fn' % k; s.frame_extra.append('void* %s;' % fld)
        out.append('f_->%s = (void*)%s;' % (fld, cv))
        first = True
        for g in cands:
            out.append('%sif (f_->%s == (void*)&%s) {' % ('' if first else 'else ', fld, em.fname(g))); first = False
            s.conc_start(g, A); out.append('}')
        call = '((%s)f_->%s)(%s)' % (fpt, fld, ', '.join(A))
        for g in excluded:
            out.append('else if (f_->%s == (void*)&%s) { __CPROVER_assert(0, "modelling bound: recursive indirect call target excluded from the step-function dispatch"); __CPROVER_assume(0); }' % (fld, em.fname(g)))
        out.append('else { %s%s; goto N_%d; }' % ((r + ' = ') if r else '', call, k))
        out.append('R_%d: ;' % k)
        first = True
        for g in cands:
            out.append('%sif (f_->%s == (void*)&%s) { if (!S_%s()) { f_->pc_ = %d; return 0; } %s }' %
                       ('' if first else 'else ', fld, em.fname(g), san(g), k, ('%s = fr_%s[verif_cur].ret_;' % (r, san(g))) if r else ''))
            first = False
        out.append('N_%d: ;' % k)
        return True

    def intrinsic(s, n, ins, A, r):
        """returns None if not handled, else may_throw bool"""
        out = s.lines; em = s.em
        asg = (r + ' = ') if r else ''
        if n.startswith('llvm.lifetime') or n.startswith('llvm.dbg') or n.startswith('llvm.invariant') or n in ('llvm.donothing',) or n.startswith('llvm.experimental.noalias'):
            return False
        if n.startswith('llvm.assume'):
            return False
        if n.startswith('llvm.expect'):
            out.append('%s%s;' % (asg, A[0])); return False
        if n.startswith('llvm.memcpy') or n.startswith('llvm.memmove'):
            lv = ins['args'][2][1]
            if isinstance(lv, VInt) and 0 < lv.v <= 256:
                # typed aggregate assignment when either operand is a bitcast of a pointer to an object of exactly this size
                # (keeps CBMC's objects field-sensitive instead of turning them into byte arrays)
                et = None
                for cand in (s.elem_type_of(ins['args'][0][1]), s.elem_type_of(ins['args'][1][1])):
                    if cand is not None and isinstance(s.res(cand), (TStruct, TArr, TInt, TPtr)) and em.size_align(cand)[0] == lv.v: et = cand; break
                if et is not None and not em.o.no_typed_memcpy:
                    em.need_complete(et)
                    out.append('*(%s*)%s = *(const %s*)%s;' % (s.cty(et), A[0], s.cty(et), A[1]))
                else:
                    em.bytes_structs.add(lv.v)
                    out.append('*(struct verif_B%d*)%s = *(const struct verif_B%d*)%s;' % (lv.v, A[0], lv.v, A[1]))
            else:
                # element-typed inline copy loop when the destination is a bitcast/gep of a typed pointer
                etd = s.elem_type_of(ins['args'][0][1]); ets = s.elem_type_of(ins['args'][1][1])
                et = etd or ets
                # a struct element type is trusted only when both operands agree on it (clang folds derived-class field offsets into
                # GEPs over the base struct, whose pointee type is then not the element type of the copied array)
                if et is not None and isinstance(s.res(et), (TStruct, TNamed)) and not (etd is not None and ets is not None and s.cty(etd) == s.cty(ets)): et = None
                if et is not None and etd is not None and ets is not None and em.size_align(etd)[0] != em.size_align(ets)[0]: et = None
                esz = em.size_align(et)[0] if et is not None else 1
                if et is not None and esz > 1 and not isinstance(s.res(et), TPtr):
                    # non-pointer elements: typed only when the length is syntactically count * sizeof(element); otherwise byte-wise
                    # (the operand type may be that of an enclosing object, e.g. a char buffer inside a struct)
                    dl = s.defs.get(lv.name) if isinstance(lv, VLocal) else None
                    ok_ = dl is not None and ((dl['op'] == 'mul' and isinstance(dl['b'], VInt) and dl['b'].v % esz == 0) or (dl['op'] == 'shl' and isinstance(dl['b'], VInt) and (1 << dl['b'].v) % esz == 0))
                    if not ok_: et = None; esz = 1
                if et is not None and esz > 1 and esz <= 64 and isinstance(s.res(et), (TInt, TPtr, TStruct, TNamed)):
                    em.need_complete(et)
                    ct = s.cty(et); k = s.tmp()
                    mv = 'memmove' in n
                    out.append('{ uint64_t n_%s = %s; %s* d_%s = (%s*)%s; const %s* s_%s = (const %s*)%s;' % (k, A[2], ct, k, ct, A[0], ct, k, ct, A[1]))
                    # the length must be a whole number of elements (asserted): no byte-wise fall-back, which CBMC would have to explore
                    # for every symbolic length and which turns pointer arrays into byte expressions
                    out.append('  __CPROVER_assert(n_%s %% %d == 0, "translator: typed %s length is a multiple of the element size");' % (k, esz, 'memmove' if mv else 'memcpy'))
                    if mv:
                        out.append('  if (VERIF_MOVE_FWD(d_%s, s_%s)) { for (uint64_t i_ = 0; i_ < n_%s / %d; ++i_) { %s* dp_ = d_%s + i_; const %s* sp_ = s_%s + i_; *dp_ = *sp_; } }' % (k, k, k, esz, ct, k, ct, k))
                        out.append('  else { for (uint64_t i_ = n_%s / %d; i_ > 0; --i_) { %s* dp_ = d_%s + (i_ - 1); const %s* sp_ = s_%s + (i_ - 1); *dp_ = *sp_; } } }' % (k, esz, ct, k, ct, k))
                    else:
                        out.append('  for (uint64_t i_ = 0; i_ < n_%s / %d; ++i_) { %s* dp_ = d_%s + i_; const %s* sp_ = s_%s + i_; *dp_ = *sp_; } }' % (k, esz, ct, k, ct, k))
                else:
                    k = s.tmp(); mv = 'memmove' in n
                    out.append('{ uint64_t n_%s = %s; uint8_t* d_%s = (uint8_t*)%s; const uint8_t* s_%s = (const uint8_t*)%s;' % (k, A[2], k, A[0], k, A[1]))
                    if mv:
                        out.append('  if (VERIF_MOVE_FWD(d_%s, s_%s)) { for (uint64_t i_ = 0; i_ < n_%s; ++i_) { uint8_t* dp_ = d_%s + i_; const uint8_t* sp_ = s_%s + i_; *dp_ = *sp_; } }' % (k, k, k, k, k))
                        out.append('  else { for (uint64_t i_ = n_%s; i_ > 0; --i_) { uint8_t* dp_ = d_%s + (i_ - 1); const uint8_t* sp_ = s_%s + (i_ - 1); *dp_ = *sp_; } } }' % (k, k, k))
                    else:
                        out.append('  for (uint64_t i_ = 0; i_ < n_%s; ++i_) { uint8_t* dp_ = d_%s + i_; const uint8_t* sp_ = s_%s + i_; *dp_ = *sp_; } }' % (k, k, k))
            return False
        if n.startswith('llvm.memset'):
            lv = ins['args'][2][1]; vv = ins['args'][1][1]
            if isinstance(lv, VInt) and 0 < lv.v <= 512 and isinstance(vv, VInt):
                # constant size: one aggregate assignment (no loop); typed when the destination is a bitcast of a typed pointer and the value is 0
                et = s.elem_type_of(ins['args'][0][1])
                if et is not None and vv.v == 0 and em.size_align(et)[0] == lv.v and isinstance(s.res(et), (TStruct, TArr)):
                    em.need_complete(et)
                    out.append('*(%s*)%s = (%s){0};' % (s.cty(et), A[0], s.cty(et)))
                else:
                    em.bytes_structs.add(lv.v)
                    out.append('*(struct verif_B%d*)%s = (struct verif_B%d){{%s}};' % (lv.v, A[0], lv.v, ','.join([str(vv.v & 255)] * lv.v)))
            else:
                k = s.tmp()
                et = s.elem_type_of(ins['args'][0][1]); esz = em.size_align(et)[0] if et is not None else 1
                if et is not None and esz > 1 and isinstance(vv, VInt) and vv.v == 0 and isinstance(s.res(et), (TInt, TPtr, TStruct)):
                    # zero-fill in units of the pointee type (one iteration per element instead of per byte)
                    em.need_complete(et); ct = s.cty(et); z = '(%s)0' % ct if isinstance(s.res(et), (TInt, TPtr)) else '(%s){0}' % ct
                    out.append('{ uint64_t n_%s = %s; %s* d_%s = (%s*)%s; if (n_%s %% %d != 0) verif_memset((uint8_t*)d_%s, 0, n_%s); else for (uint64_t i_ = 0; i_ < n_%s / %d; ++i_) d_%s[i_] = %s; }' % (k, A[2], ct, k, ct, A[0], k, esz, k, k, k, esz, k, z))
                elif isinstance(vv, VInt) and vv.v == 0:
                    # zero fill of unknown element type: 8-byte words when the length allows (8x fewer loop iterations)
                    out.append('{ uint64_t n_%s = %s; uint8_t* d_%s = (uint8_t*)%s; if (n_%s %% 8 == 0) { for (uint64_t i_ = 0; i_ < n_%s / 8; ++i_) ((uint64_t*)d_%s)[i_] = 0; } else { for (uint64_t i_ = 0; i_ < n_%s; ++i_) d_%s[i_] = 0; } }' % (k, A[2], k, A[0], k, k, k, k, k))
                else:
                    out.append('{ uint64_t n_%s = %s; uint8_t* d_%s = (uint8_t*)%s; uint8_t c_%s = %s; for (uint64_t i_ = 0; i_ < n_%s; ++i_) d_%s[i_] = c_%s; }' % (k, A[2], k, A[0], k, A[1], k, k, k))
            return False
        m_ = re.match(r'llvm\.(ctlz|cttz|ctpop|bswap|abs)\.i(\d+)$', n)
        if m_:
            out.append('%sverif_%s%s(%s);' % (asg, m_.group(1), m_.group(2), A[0])); return False
        m_ = re.match(r'llvm\.(fshl|fshr)\.v(\d+)i(\d+)$', n)
        if m_:
            for i in range(int(m_.group(2))):
                out.append('%s.a[%d] = verif_%s%s(%s.a[%d], %s.a[%d], %s.a[%d]);' % (r, i, m_.group(1), m_.group(3), A[0], i, A[1], i, A[2], i))
            return False
        m_ = re.match(r'llvm\.(ctlz|cttz|ctpop|bswap)\.v(\d+)i(\d+)$', n)
        if m_:
            for i in range(int(m_.group(2))):
                out.append('%s.a[%d] = verif_%s%s(%s.a[%d]);' % (r, i, m_.group(1), m_.group(3), A[0], i))
            return False
        m_ = re.match(r'llvm\.(fshl|fshr)\.i(\d+)$', n)
        if m_:
            out.append('%sverif_%s%s(%s, %s, %s);' % (asg, m_.group(1), m_.group(2), A[0], A[1], A[2])); return False
        m_ = re.match(r'llvm\.(umin|umax|smin|smax)\.i(\d+)$', n)
        if m_:
            t = ins['rty']; pr = {'umin': 'ult', 'umax': 'ugt', 'smin': 'slt', 'smax': 'sgt'}[m_.group(1)]
            out.append('%s%s ? %s : %s;' % (asg, em.icmp(pr, t, A[0], A[1]), A[0], A[1])); return False
        m_ = re.match(r'llvm\.(uadd|usub)\.sat\.i(\d+)$', n)
        if m_:
            t = ins['rty']
            if m_.group(1) == 'usub': out.append('%s%s ? %s : %s;' % (asg, em.icmp('ugt', t, A[0], A[1]), em.binop('sub', t, A[0], A[1]), em.cint(s.res(t), 0)))
            else: out.append('%s%s ? %s : %s;' % (asg, em.icmp('ult', t, em.binop('add', t, A[0], A[1]), A[0]), em.cint(s.res(t), -1), em.binop('add', t, A[0], A[1])))
            return False
        m_ = re.match(r'llvm\.([us])(add|sub|mul)\.with\.overflow\.i(\d+)$', n)
        if m_:
            t = ins['rty']; et = s.res(t).els[0]; nb = et.n
            sg = m_.group(1) == 's'; opn = m_.group(2); cet = s.cty(et)
            # explicit double-width arithmetic (constant-folds in CBMC, unlike __builtin_*_overflow)
            wide_u = 'uint64_t' if 2 * nb <= 64 else 'VERIF_UBVW(%d)' % (2 * nb); wide_s = 'int64_t' if 2 * nb <= 64 else 'VERIF_SBVW(%d)' % (2 * nb)
            o = {'add': '+', 'sub': '-', 'mul': '*'}[opn]
            if not sg:
                out.append('{ %s w_ = (%s)%s %s (%s)%s; %s.f0 = (%s)w_; %s.f1 = (w_ != (%s)(%s)w_); }' % (wide_u, wide_u, A[0], o, wide_u, A[1], r, cet, r, wide_u, cet))
            else:
                st = em.sty(et)
                out.append('{ %s w_ = (%s)(%s)%s %s (%s)(%s)%s; %s.f0 = (%s)w_; %s.f1 = (w_ != (%s)(%s)(%s)w_); }' % (wide_s, wide_s, st, A[0], o, wide_s, st, A[1], r, cet, r, wide_s, st, cet))
            return False
        if n == 'llvm.trap':
            out.append('__CPROVER_assert(0, "llvm.trap"); __CPROVER_assume(0);'); return False
        if n.startswith('llvm.eh.typeid.for'):
            tn = s.ti_name(ins['args'][0][1])
            out.append('%sverif_typeid(%s);' % (asg, tn)); return False
        if n.startswith('llvm.x86.sse2.psll') or n.startswith('llvm.x86.sse2.psrl'):
            mm = re.match(r'llvm\.x86\.sse2\.ps(ll|rl)i\.([wdq])$', n)
            if mm:
                rt = s.res(ins['rty']); w = {'w': 16, 'd': 32, 'q': 64}[mm.group(2)]
                o = '<<' if mm.group(1) == 'll' else '>>'
                for i in range(rt.n):
                    out.append('%s.a[%d] = ((uint32_t)%s >= %d) ? 0 : (uint%d_t)(%s.a[%d] %s %s);' % (r, i, A[1], w, w, A[0], i, o, A[1]))
                return False
        if n.startswith('llvm.'):
            raise NotImplementedError('intrinsic ' + n)
        # ---- C / C++ runtime
        if n in ('_Znwm', '_Znam', '_ZnwmRKSt9nothrow_t', '_ZnamRKSt9nothrow_t'):
            tm = s.typed_alloc(ins) if r else None
            if tm is not None:
                out.append('%s(uint8_t*)malloc(%s); __CPROVER_assume(%s != 0);' % (asg, tm, r)); return False
            if em.o.alloc_cap and not isinstance(ins['args'][0][1], VInt):
                out.append('__CPROVER_assert((uint64_t)%s <= %dULL, "modelling bound: variable-size allocation within --alloc-cap");' % (A[0], em.o.alloc_cap))
                out.append('%s(uint8_t*)verif_new(%dULL);' % (asg, em.o.alloc_cap)); return False
            out.append('%s(uint8_t*)verif_new(%s);' % (asg, A[0])); return False
        if n in ('_ZdlPv', '_ZdaPv', '_ZdlPvm', '_ZdaPvm'):
            out.append('verif_delete((void*)%s);' % A[0]); return False
        if n == '__assert_fail':
            msg = s.strarg(ins['args'][0]) or 'assert'
            fn_ = s.strarg(ins['args'][1]) or ''
            ln_ = ins['args'][2][1].v if isinstance(ins['args'][2][1], VInt) else 0
            msg = re.sub(r'[^ -~]', '?', msg).replace('\\', '\\\\').replace('"', '\\"')
            out.append('__CPROVER_assert(0, "src-assert: %s @%s:%d"); __CPROVER_assume(0);' % (msg, fn_.split('/')[-1], ln_)); return False
        if n == 'abort':
            out.append('__CPROVER_assert(0, "abort() reached"); __CPROVER_assume(0);'); return False
        if n == '__cxa_guard_acquire':      # function-local static initialisation guard (single-threaded at this point of the model)
            out.append('%s(uint32_t)(*(uint8_t*)%s == 0);' % (asg, A[0])); return False
        if n == '__cxa_guard_release':
            out.append('*(uint8_t*)%s = 1;' % A[0]); return False
        if n == '__cxa_guard_abort': return False
        if n == '__cxa_atexit':
            if r: out.append('%s0;' % asg)
            return False
        if n == '__cxa_allocate_exception':
            out.append('%s(uint8_t*)verif_new(%s);' % (asg, A[0])); return False
        if n == '__cxa_throw':
            out.append('verif_exc = 1; verif_exc_obj = (void*)%s; verif_exc_type = (const void*)%s;' % (A[0], A[1])); return True
        if n == '__cxa_begin_catch':
            out.append('verif_exc = 0; %s(uint8_t*)verif_exc_obj;' % asg); return False
        if n == '__cxa_end_catch':
            out.append('if (!verif_exc && verif_exc_obj) { verif_delete(verif_exc_obj); verif_exc_obj = 0; }')   # the caught exception object is released
            return False
        if n == '__cxa_rethrow':
            out.append('verif_exc = 1;'); return True
        if n == '__cxa_free_exception':
            return False
        if n == '__clang_call_terminate' or n == '_ZSt9terminatev':
            out.append('__CPROVER_assert(0, "std::terminate"); __CPROVER_assume(0);'); return False
        if n.startswith('_ZSt') and '__throw_' in n:   # std::__throw_xxx(const char*)
            mm = re.match(r'_ZSt\d+__throw_([a-z_]+?)(PKc|v|PKcz)$', n)
            if mm:
                ti = {'length_error': '@_ZTISt12length_error', 'out_of_range': '@_ZTISt12out_of_range', 'out_of_range_fmt': '@_ZTISt12out_of_range',
                      'logic_error': '@_ZTISt11logic_error', 'bad_alloc': '@_ZTISt9bad_alloc', 'bad_array_new_length': '@_ZTISt20bad_array_new_length',
                      'runtime_error': '@_ZTISt13runtime_error', 'bad_function_call': '@_ZTISt17bad_function_call',
                      'invalid_argument': '@_ZTISt16invalid_argument', 'system_error': '@_ZTISt12system_error'}.get(mm.group(1))
                if ti:
                    em.extra_globals.add(ti)
                    out.append('verif_exc = 1; verif_exc_obj = 0; verif_exc_type = (const void*)&%s;' % em.gname(ti)); return True
        if n in PASSTHRU or n.startswith('__CPROVER') or n.startswith('nondet_') or n.startswith('verif_'):
            if n == '__CPROVER_assert':
                msg = s.strarg(ins['args'][1]) or 'assert'
                msg = re.sub(r'[^ -~]', '?', msg).replace('\\', '\\\\').replace('"', '\\"')
                out.append('__CPROVER_assert(%s, "%s");' % (A[0], msg)); return False
            if n in ('memcmp', 'bcmp', 'strlen', 'strcmp', 'strncmp', 'memchr'):
                cast = {'memcmp': '(uint32_t)verif_memcmp((const uint8_t*)%s,(const uint8_t*)%s,%s)', 'bcmp': '(uint32_t)verif_memcmp((const uint8_t*)%s,(const uint8_t*)%s,%s)', 'strlen': '(uint64_t)verif_strlen((const uint8_t*)%s)',
                        'strcmp': '(uint32_t)verif_strcmp((const uint8_t*)%s,(const uint8_t*)%s)', 'strncmp': '(uint32_t)verif_strncmp((const uint8_t*)%s,(const uint8_t*)%s,%s)',
                        'memchr': '(uint8_t*)verif_memchr((const uint8_t*)%s,(int)%s,%s)'}[n]
                out.append('%s%s;' % (asg, cast % tuple(A))); return False
            if n in ('memcpy', 'memmove', 'memset'):
                out.append('verif_%s((uint8_t*)%s, %s, %s);' % (n, A[0], ('(const uint8_t*)' + A[1]) if n != 'memset' else '(uint8_t)' + A[1], A[2]))
                if r: out.append('%s = (uint8_t*)%s;' % (r, A[0]))
                return False
            if n == 'free':
                out.append('verif_delete((void*)%s);' % A[0]); return False
            if n == 'malloc':
                out.append('%s(uint8_t*)verif_new(%s);' % (asg, A[0])); return False
            out.append('%s%s(%s);' % (asg, n, ', '.join(A))); return False
        return None

CONC_RT_DECLS = r'''
/* ---- scheduler interface (engine/rt/sched.c is appended to this file) */
#ifndef VERIF_NT
#define VERIF_NT 4
#endif
extern uint32_t verif_cur; extern uint32_t verif_atomic_epoch;
void verif_pend_lock(void* m); void verif_pend_waitcv(void* cv); void verif_pend_join(uint32_t id); void verif_pend_run(void);
void verif_do_lock(void* m); void verif_do_unlock(void* m); void verif_cv_enqueue(void* cv); void verif_pend_load(void* a, uint32_t site); void verif_did_load(void* a, uint32_t site);
'''

PRELUDE = r'''
#include <stdint.h>
#include <stddef.h>
#include <string.h>
#include <stdlib.h>
#ifdef VERIF_GCC
#include <stdio.h>
extern void verif_gcc_assert(int c, const char* m);
#define __CPROVER_assert(c, m) verif_gcc_assert((c), (m))
extern void __CPROVER_assume(int c);
#define VERIF_MOVE_FWD(d, s) ((uintptr_t)(d) <= (uintptr_t)(s))
#define VERIF_UBV(n) uint64_t
#define VERIF_SBV(n) int64_t
#define VERIF_UBVW(n) unsigned __int128
#define VERIF_SBVW(n) __int128
uint8_t nondet_u8(void); uint16_t nondet_u16(void); uint32_t nondet_u32(void); uint64_t nondet_u64(void);
void verif_observe(uint64_t v);
#else
/* memmove direction: decided on the offsets inside the object (constant for concrete pointers; addresses are symbolic for CBMC). For different objects either direction is right. */
#define VERIF_MOVE_FWD(d, s) (__CPROVER_POINTER_OFFSET(d) <= __CPROVER_POINTER_OFFSET(s))
#define VERIF_UBV(n) unsigned __CPROVER_bitvector[n]
#define VERIF_SBV(n) signed __CPROVER_bitvector[n]
#define VERIF_UBVW(n) unsigned __CPROVER_bitvector[n]
#define VERIF_SBVW(n) signed __CPROVER_bitvector[n]
/* every symbolic input passes through these wrappers so that a counterexample trace lists the inputs in call order */
uint8_t nondet_raw_u8(void); uint16_t nondet_raw_u16(void); uint32_t nondet_raw_u32(void); uint64_t nondet_raw_u64(void);
uint8_t nondet_u8(void) { uint8_t verif_in_u8 = nondet_raw_u8(); return verif_in_u8; }
uint16_t nondet_u16(void) { uint16_t verif_in_u16 = nondet_raw_u16(); return verif_in_u16; }
uint32_t nondet_u32(void) { uint32_t verif_in_u32 = nondet_raw_u32(); return verif_in_u32; }
uint64_t nondet_u64(void) { uint64_t verif_in_u64 = nondet_raw_u64(); return verif_in_u64; }
static inline void verif_observe(uint64_t v) { (void)v; }
#endif
int verif_exc = 0; void* verif_exc_obj = 0; const void* verif_exc_type = 0;
static inline void verif_memcpy(uint8_t* d, const uint8_t* s, uint64_t n) { for (uint64_t i = 0; i < n; ++i) d[i] = s[i]; }
static inline void verif_memmove(uint8_t* d, const uint8_t* s, uint64_t n) {
  if (VERIF_MOVE_FWD(d, s)) { for (uint64_t i = 0; i < n; ++i) d[i] = s[i]; }
  else { for (uint64_t i = n; i > 0; --i) d[i - 1] = s[i - 1]; } }
static inline void verif_memset(uint8_t* d, uint8_t c, uint64_t n) { for (uint64_t i = 0; i < n; ++i) d[i] = c; }
/* own C-library string kernels (CBMC 6 ships no memchr body; the others are kept explicit so that their loops are bounded like any other loop) */
static inline int verif_memcmp(const uint8_t* a, const uint8_t* b, uint64_t n) { for (uint64_t i = 0; i < n; ++i) { if (a[i] != b[i]) return a[i] < b[i] ? -1 : 1; } return 0; }
static inline uint64_t verif_strlen(const uint8_t* a) { uint64_t i = 0; while (a[i] != 0) ++i; return i; }
static inline int verif_strcmp(const uint8_t* a, const uint8_t* b) { for (uint64_t i = 0;; ++i) { if (a[i] != b[i]) return a[i] < b[i] ? -1 : 1; if (a[i] == 0) return 0; } }
static inline int verif_strncmp(const uint8_t* a, const uint8_t* b, uint64_t n) { for (uint64_t i = 0; i < n; ++i) { if (a[i] != b[i]) return a[i] < b[i] ? -1 : 1; if (a[i] == 0) return 0; } return 0; }
static inline uint8_t* verif_memchr(const uint8_t* a, int c, uint64_t n) { for (uint64_t i = 0; i < n; ++i) if (a[i] == (uint8_t)c) return (uint8_t*)(a + i); return (uint8_t*)0; }
static inline void* verif_new(uint64_t n) { void* p = malloc(n ? n : 1); __CPROVER_assume(p != 0); return p; }
static inline void verif_delete(void* p) { free(p); }
static inline uint32_t verif_ctlz32(uint32_t x) { return x == 0 ? 32 : (uint32_t)__builtin_clz(x); }
static inline uint64_t verif_ctlz64(uint64_t x) { return x == 0 ? 64 : (uint64_t)__builtin_clzll(x); }
static inline uint16_t verif_ctlz16(uint16_t x) { return x == 0 ? 16 : (uint16_t)(__builtin_clz((uint32_t)x) - 16); }
static inline uint8_t verif_ctlz8(uint8_t x) { return x == 0 ? 8 : (uint8_t)(__builtin_clz((uint32_t)x) - 24); }
static inline uint32_t verif_cttz32(uint32_t x) { return x == 0 ? 32 : (uint32_t)__builtin_ctz(x); }
static inline uint64_t verif_cttz64(uint64_t x) { return x == 0 ? 64 : (uint64_t)__builtin_ctzll(x); }
static inline uint16_t verif_cttz16(uint16_t x) { return x == 0 ? 16 : (uint16_t)__builtin_ctz((uint32_t)x); }
static inline uint8_t verif_cttz8(uint8_t x) { return x == 0 ? 8 : (uint8_t)__builtin_ctz((uint32_t)x); }
static inline uint32_t verif_ctpop32(uint32_t x) { return (uint32_t)__builtin_popcount(x); }
static inline uint64_t verif_ctpop64(uint64_t x) { return (uint64_t)__builtin_popcountll(x); }
static inline uint16_t verif_ctpop16(uint16_t x) { return (uint16_t)__builtin_popcount((uint32_t)x); }
static inline uint8_t verif_ctpop8(uint8_t x) { return (uint8_t)__builtin_popcount((uint32_t)x); }
static inline uint16_t verif_bswap16(uint16_t x) { return (uint16_t)((x >> 8) | (x << 8)); }
static inline uint32_t verif_bswap32(uint32_t x) { return __builtin_bswap32(x); }
static inline uint64_t verif_bswap64(uint64_t x) { return __builtin_bswap64(x); }
static inline uint32_t verif_fshl32(uint32_t a, uint32_t b, uint32_t c) { c &= 31; return c ? (a << c) | (b >> (32 - c)) : a; }
static inline uint32_t verif_fshr32(uint32_t a, uint32_t b, uint32_t c) { c &= 31; return c ? (a << (32 - c)) | (b >> c) : b; }
static inline uint64_t verif_fshl64(uint64_t a, uint64_t b, uint64_t c) { c &= 63; return c ? (a << c) | (b >> (64 - c)) : a; }
static inline uint64_t verif_fshr64(uint64_t a, uint64_t b, uint64_t c) { c &= 63; return c ? (a << (64 - c)) | (b >> c) : b; }
static inline uint32_t verif_abs32(uint32_t x) { return (int32_t)x < 0 ? -x : x; }
static inline uint64_t verif_abs64(uint64_t x) { return (int64_t)x < 0 ? -x : x; }
'''

def emit_module(m, opts):
    em = Emitter(m, opts)
    em.extra_globals = set(); em.bytes_structs = set(); em.cookie_structs = {}
    bodies = []
    protos = []
    keep = None
    refre = re.compile(r'@"(?:[^"\\]|\\.)*"|@[-a-zA-Z$._0-9]+')
    if opts.entry:
        # reachability from entry points
        keep = set(); work = ['@' + e for e in opts.entry]
        texts = {n: '\n'.join(sum([b.ins for b in f.blocks], [])) for n, f in m.funcs.items() if not f.decl}
        gtexts = {}
        refre = re.compile(r'@"(?:[^"\\]|\\.)*"|@[-a-zA-Z$._0-9]+')
        # globals' initializer text: re-scan original lines lazily via stored raw
        while work:
            n = work.pop()
            if n in keep: continue
            keep.add(n)
            txt = texts.get(n)
            if txt is None: txt = m.raw_globals.get(n, '')
            for r_ in refre.findall(txt):
                if r_ not in keep: work.append(r_)
    if keep is not None:
        ch = True
        while ch:   # typeinfo parents of kept exception types stay (catch clauses match through the hierarchy)
            ch = False
            for c_, p_ in EH_PARENTS.items():
                if c_ in keep and p_ in m.globals and p_ not in keep: keep.add(p_); ch = True
    def kept(n): return keep is None or n in keep
    em.yielding = set(); em.addr_taken_yielding = []; em.frame_decls = []
    if getattr(opts, 'conc', False):
        callre = re.compile(r'\b(?:call|invoke)\b[^\n]*?(@"(?:[^"\\]|\\.)*"|@[-a-zA-Z$._0-9]+)\(')
        fn_txt = {n: '\n'.join(sum([b.ins for b in f.blocks], [])) for n, f in m.funcs.items() if not f.decl and kept(n)}
        calls = {n: set(callre.findall(t)) for n, t in fn_txt.items()}
        prim = ('@verif_mutex_lock', '@verif_cv_wait', '@verif_thread_join', '@verif_yield')
        atom = re.compile(r'\batomicrmw\b|\bcmpxchg\b|\bload atomic\b|\bstore atomic\b')
        allrefs = {n: set(refre.findall(t)) for n, t in fn_txt.items()}
        gl_refs = set()
        for g_ in m.raw_globals.values(): gl_refs |= set(refre.findall(g_))
        def is_addr_taken(g):
            if g in gl_refs: return True
            for n, t in fn_txt.items():
                if g in allrefs[n]:
                    # referenced other than as a direct callee?
                    if len(re.findall(re.escape(g) + r'(?![-a-zA-Z$._0-9"])', t)) > len(re.findall(r'\b(?:call|invoke)\b[^\n]*?' + re.escape(g) + r'\(', t)): return True
            return False
        indirect = {n: bool(re.search(r'\b(?:call|invoke)\b[^@\n]*?%[-a-zA-Z$._0-9"]+\(', t)) for n, t in fn_txt.items()}
        ych = True
        for n, t in fn_txt.items():
            if any(p_ in calls[n] for p_ in prim) or (opts.yield_atomics and atom.search(t)): em.yielding.add(n)
        while ych:
            ych = False
            taken = [g for g in em.yielding if is_addr_taken(g)]
            for n in fn_txt:
                if n in em.yielding: continue
                if calls[n] & em.yielding or (indirect[n] and taken):
                    em.yielding.add(n); ych = True
        for nn in list(em.yielding):
            if any(u in nn for u in opts.no_yield) or any(u in nn for u in opts.unreachable): em.yielding.discard(nn)
        em.addr_taken_yielding = sorted(g for g in em.yielding if is_addr_taken(g))
        # thread entry functions (first argument of verif_thread_spawn) are started by the scheduler only; they are not candidates of indirect calls
        em.spawn_entries = set()
        for t in fn_txt.values():
            for mm in re.finditer(r'@verif_thread_spawn\((?:[^@\n]*?)(@"(?:[^"\\]|\\.)*"|@[-a-zA-Z$._0-9]+)', t): em.spawn_entries.add(mm.group(1))
        em.conc_edges = {n: set(c for c in calls[n] if c in em.yielding) for n in em.yielding}
        # recursion among yielding functions is not supported (static frames)
        for n in em.yielding:
            seen = set(); work = [c for c in calls[n] if c in em.yielding]
            while work:
                c = work.pop()
                if c == n: raise RuntimeError('recursive yielding function %s' % n)
                if c in seen: continue
                seen.add(c); work += [d for d in calls.get(c, ()) if d in em.yielding]
    # function prototypes
    for n in m.forder:
        f = m.funcs[n]
        if not kept(n): continue
        nm = n[1:].strip('"')
        if nm.startswith('llvm.') or nm in PASSTHRU or nm.startswith('__CPROVER') or nm in ('_Znwm', '_Znam', '_ZdlPv', '_ZdaPv', '_ZdlPvm', '_ZdaPvm', '__assert_fail', 'abort', '__cxa_guard_acquire', '__cxa_guard_release', '__cxa_guard_abort', '__cxa_atexit', '__cxa_throw', '__cxa_allocate_exception', '__cxa_begin_catch', '__cxa_end_catch', '__cxa_rethrow', '__cxa_free_exception'):
            continue
        args = ', '.join('%s %s' % (em.cty(t), ('v_' + san(pn)) if pn else '') for (t, pn) in f.params)
        if f.va: args = (args + ', ...') if args else '...'
        if not args: args = 'void'
        for (t, _) in f.params: em.need_complete(t)
        em.need_complete(f.ret)
        sig = '%s %s(%s)' % (em.cty(f.ret), em.fname(n), args)
        protos.append(sig + ';')
        if f.decl and ENV_NOOP.match(nm):
            # binary-only libstdc++ environment functions whose effect is irrelevant (exception object ctors/dtors: only the type is compared)
            bodies.append(sig + '\n{ %s }\n' % ('' if isinstance(f.ret, TVoid) else 'return (%s)0;' % em.cty(f.ret) if isinstance(em.res(f.ret), (TInt, TPtr, TFloat)) else 'return (%s){0};' % em.cty(f.ret)))
        if not f.decl and opts.introsort_small and '__introsort_loop' in nm and len(f.params) >= 2 and isinstance(em.res(f.params[0][0]), TPtr):
            # contract stub for libstdc++'s std::__introsort_loop(first, last, depth, cmp): for at most 16 elements its loop body is never entered,
            # i.e. it is a no-op (the final insertion sort does the work); the precondition is asserted
            esz = em.size_align(em.res(f.params[0][0]).to)[0]
            bodies.append(sig + '\n{ if (v_%s != 0 && v_%s != 0) __CPROVER_assert((uint64_t)((const uint8_t*)v_%s - (const uint8_t*)v_%s) <= %dULL, "modelling bound: std::sort contract stub used with more than 16 elements"); }\n'
                          % (san(f.params[1][1]), san(f.params[0][1]), san(f.params[1][1]), san(f.params[0][1]), 16 * esz))
            continue
        if not f.decl and opts.model_string_vector_growth and '_M_realloc_insert' in nm and len(f.params) == 3 and all(isinstance(em.res(t_), TPtr) for (t_, _) in f.params) \
                and 'basic_string' in repr(f.params[1][0]) and em.size_align(em.res(f.params[1][0]).to)[0] == 32:
            # contract model of libstdc++'s std::vector<std::string>::_M_realloc_insert(end(), string&&) (environment code): new storage of a fixed
            # capacity, elements moved bitwise with the small-string self-pointer fixed up, old storage released.  Append only, capacity asserted.
            v_, pos_, x_ = ['v_' + san(pn) for (_, pn) in f.params]; sty = s_cty = em.cty(em.res(f.params[1][0]).to); capn = opts.model_string_vector_growth
            mv = ('{ uint8_t* sp_ = *(uint8_t**)S_; if (sp_ == (uint8_t*)S_ + 16) { *(uint8_t**)D_ = (uint8_t*)D_ + 16; *(uint64_t*)((uint8_t*)D_ + 16) = *(uint64_t*)((uint8_t*)S_ + 16); *(uint64_t*)((uint8_t*)D_ + 24) = *(uint64_t*)((uint8_t*)S_ + 24); } '
                  'else { *(uint8_t**)D_ = sp_; *(uint64_t*)((uint8_t*)D_ + 16) = *(uint64_t*)((uint8_t*)S_ + 16); } *(uint64_t*)((uint8_t*)D_ + 8) = *(uint64_t*)((uint8_t*)S_ + 8); '
                  '*(uint8_t**)S_ = (uint8_t*)S_ + 16; *(uint64_t*)((uint8_t*)S_ + 8) = 0; ((uint8_t*)S_)[16] = 0; }')
            body = ['  %s** vp_ = (%s**)%s; %s* os_ = vp_[0]; %s* of_ = vp_[1];' % (sty, sty, v_, sty, sty),
                    '  uint64_t n_ = (os_ != 0) ? (uint64_t)(of_ - os_) : 0;',
                    '  __CPROVER_assert(%s == of_, "modelling bound: vector<string> growth model supports insertion at end() only");' % pos_,
                    '  __CPROVER_assert(n_ < %dULL, "modelling bound: vector<string> growth model capacity");' % capn,
                    '  %s* nb_ = (%s*)malloc(sizeof(%s) * %d); __CPROVER_assume(nb_ != 0);' % (sty, sty, sty, capn),
                    '  for (uint64_t i_ = 0; i_ < n_; ++i_) { %s* D_ = &nb_[i_]; %s* S_ = &os_[i_]; %s }' % (sty, sty, mv),
                    '  { %s* D_ = &nb_[n_]; %s* S_ = %s; %s }' % (sty, sty, x_, mv),
                    '  if (os_ != 0) free(os_);', '  vp_[0] = nb_; vp_[1] = nb_ + n_ + 1; vp_[2] = nb_ + %d;' % capn]
            bodies.append(sig + '\n{\n' + '\n'.join(body) + '\n}\n')
            continue
        if not f.decl and any(u in nm for u in opts.unreachable):
            bodies.append(sig + '\n{ __CPROVER_assert(0, "modelling bound: function assumed unreachable was reached: %s"); __CPROVER_assume(0); %s }\n' % (nm[:60], '' if isinstance(f.ret, TVoid) else ('return (%s)0;' % em.cty(f.ret) if isinstance(em.res(f.ret), (TInt, TPtr, TFloat)) else 'return (%s){0};' % em.cty(f.ret))))
            continue
        if not f.decl and not (opts.stub and nm in opts.stub):
            fe = FE(em, f)
            try:
                body = fe.emit()
            except Exception as e:
                raise RuntimeError('in function %s: %s: %s' % (n, type(e).__name__, e))
            if fe.conc:
                protos.append('static int S_%s(void);' % san(n))
                bodies.append('static int S_%s(void)\n{\n' % san(n) + '\n'.join(body) + '\n}\n')
                # the plain function only serves as an address (thread entry / indirect-call identity); gcc needs a definition to link
                bodies.append('#ifdef VERIF_GCC\n' + sig + ' { abort(); }\n#endif\n')
            else:
                bodies.append(sig + '\n{\n' + '\n'.join(body) + '\n}\n')
    # globals
    gdecl = []; gdef = []
    names = [g for g in m.gorder if kept(g)]
    for g in sorted(em.extra_globals):
        if g not in m.globals:
            m.globals[g] = dict(name=g, type=TPtr(TInt(8)), init=None, link=[], const=True)
        if g not in names: names.append(g)     # declared in the IR but only referenced by a modelled __throw_* helper
    for g in names:
        G = m.globals[g]
        if 'alias' in G: continue
        em.need_complete(G['type'])
        ct = em.cty(G['type'])
        gdecl.append('%s %s;' % (ct, em.gname(g)))
    for g in names:
        G = m.globals[g]
        if 'alias' in G or G['init'] is None or isinstance(G['init'], (VZero, VUndef)): continue
        ct = em.cty(G['type'])
        gdef.append('%s %s = %s;' % (ct, em.gname(g), em.init(G['type'], G['init'])))
    # exception helpers
    eh = ['static inline uint32_t verif_typeid(const void* ti) {']
    for i, (nme, idn) in enumerate(sorted(em.eh_ids.items(), key=lambda x: x[1])):
        eh.append('  if (ti == (const void*)&%s) return %d;' % (em.gname(nme), idn))
    eh.append('  return 99; }')
    eh.append('static inline _Bool verif_exc_match(const void* ti) {')
    eh.append('  const void* t = verif_exc_type;')
    eh.append('  for (int i_ = 0; i_ < 4; ++i_) { if (t == ti) return 1;')
    for c, p_ in EH_PARENTS.items():
        if c in m.globals and p_ in m.globals and kept(c) and kept(p_):
            eh.append('    if (t == (const void*)&%s) { t = (const void*)&%s; continue; }' % (em.gname(c), em.gname(p_)))
    eh.append('    break; }')
    eh.append('  return 0; }')
    for n in m.named_order: em.def_named(n)
    out = [PRELUDE]
    # named struct forward decls
    for n in m.named_order: out.append('struct S_%s;' % san(n))
    out += em.type_decls
    out += ['struct verif_B%d { uint8_t b[%d]; };' % (k, k) for k in sorted(em.bytes_structs)]
    out += ['struct %s { uint64_t cookie; %s a[%d]; };' % (nm, ct, k) for nm, (ct, k) in sorted(em.cookie_structs.items())]
    out += gdecl
    out += eh
    if getattr(opts, 'conc', False):
        out.append(CONC_RT_DECLS)
        out += em.frame_decls
    out += protos
    out += gdef
    out += bodies
    if getattr(opts, 'conc', False):
        # thread entry dispatch: function pointer -> step function (thread entries take one pointer argument)
        d1 = ['void verif_thread_init(void* fn, void* arg) {']; d2 = ['int verif_thread_step(void* fn, void* arg) {']
        for g in em.addr_taken_yielding:
            f = m.funcs[g]
            if len(f.params) != 1 or not isinstance(em.res(f.params[0][0]), TPtr): continue
            d1.append('  if (fn == (void*)&%s) { fr_%s[verif_cur].v_%s = (%s)arg; fr_%s[verif_cur].pc_ = 0; return; }' % (em.fname(g), san(g), san(f.params[0][1]), em.cty(f.params[0][0]), san(g)))
            d2.append('  if (fn == (void*)&%s) return S_%s();' % (em.fname(g), san(g)))
        d1.append('}')
        for g in sorted(getattr(em, 'spawn_entries', ())):
            if g in em.yielding or g not in m.funcs or m.funcs[g].decl or not kept(g): continue
            f = m.funcs[g]
            if len(f.params) == 1: d2.append('  if (fn == (void*)&%s) { %s((%s)arg); return 1; }   /* non-yielding thread body runs as one step */' % (em.fname(g), em.fname(g), em.cty(f.params[0][0])))
        d2.append('  __CPROVER_assert(0, "modelling bound: thread entry function unknown to the step dispatch"); __CPROVER_assume(0); return 1; }')
        ent = '@' + opts.entry[0]
        if ent in em.yielding:
            d2.append('int verif_main_step(void) { return S_%s(); }' % san(ent))
        else:
            d2.append('int verif_main_step(void) { %s(); return 1; }' % em.fname(ent))
        out += d1 + d2
    # functions on a call cycle (direct or mutual recursion): the runner may seed CBMC's recursion bound for them
    callre2 = re.compile(r'\b(?:call|invoke)\b[^\n]*?(@"(?:[^"\\]|\\.)*"|@[-a-zA-Z$._0-9]+)\(')
    cg = {n: set(callre2.findall('\n'.join(sum([b.ins for b in f.blocks], [])))) for n, f in m.funcs.items() if not f.decl and kept(n)}
    rec = []
    for n in cg:
        seen = set(); work = list(cg[n])
        while work:
            x = work.pop()
            if x == n: rec.append(n); break
            if x in seen or x not in cg: continue
            seen.add(x); work.extend(cg[x])
    out.append('/* VERIF-RECURSIVE: %s */' % ' '.join(sorted(em.fname(n) for n in rec)))
    return '\n'.join(out) + '\n'

def main():
    ap = argparse.ArgumentParser()
    ap.add_argument('input'); ap.add_argument('-o', '--output', default='-')
    ap.add_argument('--entry', action='append'); ap.add_argument('--stub', action='append')
    ap.add_argument('--gcc', action='store_true'); ap.add_argument('--conc', action='store_true'); ap.add_argument('--flex', action='store_true')
    ap.add_argument('--no-typed-malloc', action='store_true'); ap.add_argument('--alloc-cap', type=int, default=0)
    ap.add_argument('--unreachable', action='append', default=[])
    ap.add_argument('--model-string-vector-growth', type=int, default=0); ap.add_argument('--introsort-small', action='store_true'); ap.add_argument('--no-typed-memcpy', action='store_true'); ap.add_argument('--yield-atomics', action='store_true'); ap.add_argument('--no-yield', action='append', default=[])
    ap.add_argument('--dispatch', action='append'); ap.add_argument('--dispatch-threshold', type=int, default=8)
    o = ap.parse_args()
    text = open(o.input).read()
    for mm in re.finditer(r'^(@"(?:[^"\\]|\\.)*"|@[-a-zA-Z$._0-9]+) = .*\balias\b.*?(@"(?:[^"\\]|\\.)*"|@[-a-zA-Z$._0-9]+)\s*$', text, re.M):
        ALIASES[mm.group(1)] = mm.group(2)
    m = parse_module(text)
    # raw text of globals for reachability
    m.raw_globals = {}
    for ln in text.split('\n'):
        if ln.startswith('@'):
            mm = re.match(r'(@"(?:[^"\\]|\\.)*"|@[-a-zA-Z$._0-9]+)', ln)
            m.raw_globals[mm.group(1)] = ln[mm.end():]
    c = emit_module(m, o)
    if o.output == '-': sys.stdout.write(c)
    else: open(o.output, 'w').write(c)

if __name__ == '__main__':
    main()
