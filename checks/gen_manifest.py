#!/usr/bin/env python3
"""regenerates /verif/MANIFEST.json from the table below (kept in one place so the manifest is always valid)"""
import json, os
V = os.path.dirname(os.path.dirname(os.path.abspath(__file__)))
TECH = 'bounded symbolic model checking of the real code: clang-14 LLVM IR of tlx + harness -> own IR->C translator (engine/ll2c.py) -> CBMC 6.11 SAT queries with unwinding assertions; counterexamples replayed on the native g++ build'
CLAIMED = {
 'C20': dict(text='Bit-vector equivalence of every listed helper (intrinsic overload, *_template, *_generic, x86 asm rotate) with a definitional reference, decided by SAT over the full 8/16/32/64-bit domain of each type; bounded only by the type widths. Division kernels wider than 8 bit and Aggregate are not yet covered (see level_note).',
             note='Trusts clang-14 -O1 lowering, ll2c, CBMC/MiniSat. Excluded by assumption: log2/rounding of x <= 0, k == 0, negative operands of div_ceil, n+k-1 not representable. div_ceil/round_up only for uint8_t operands so far; Aggregate not yet decided.',
             ref='DESIGN.md §4 C20'),
}
NA_PENDING = {}
def main():
    props = [json.loads(l) for l in open(os.path.join(V, 'properties.jsonl'))]
    na_extra = json.load(open(os.path.join(V, 'checks', 'not_applicable.json')))
    checks = []; na = []
    for p in props:
        i = p['id']
        if i in CLAIMED and i not in na_extra:
            c = CLAIMED[i]
            checks.append(dict(property_id=i, quick_cmd='python3 checks/check.py %s quick' % i, thorough_cmd='python3 checks/check.py %s thorough' % i,
                               evidence_file='evidence/%s.json' % i, replay_cmd_template='python3 checks/replay.py {path}', engine='ll2c-cbmc',
                               level_claimed=dict(category='model_checking', text=c['text'], design_ref=c['ref']), level_note=c['note'], technique=c.get('technique', TECH)))
        else:
            na.append(dict(property_id=i, reason=na_extra.get(i, 'check not built yet in this session (work in progress; see DESIGN.md for the planned encoding)')))
    m = dict(version=1, setup_cmd='python3 checks/setup.py',
             hooks=dict(guard='TLX_VERIF', enable='checks compile /repo sources with -DTLX_VERIF (clang++-14 for the IR, g++ for native replay); no build-system change',
                        baseline_off_cmd='cd /repo && cmake -G Ninja -B _build >/dev/null && cmake --build _build >/dev/null && ctest --test-dir _build -j8 --timeout 900',
                        source_commits=json.load(open(os.path.join(V, 'checks', 'hook_commits.json'))), add_only=True),
             engines=[dict(name='ll2c-cbmc', path='engine/', serves_properties=[c['property_id'] for c in checks],
                           kind_free_text='clang-14 LLVM IR -> C translator (ll2c.py) + CBMC 6.11 bounded model checker, runner vrun.py')],
             checks=checks, not_applicable=na,
             notes='All verdicts are bounded (sizes/steps/threads/unwindings stated per query in the evidence). Exit 2 + INCONCLUSIVE line = time-out/tool error, never reported as held.')
    json.dump(m, open(os.path.join(V, 'MANIFEST.json'), 'w'), indent=1)
main()
