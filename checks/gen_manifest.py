#!/usr/bin/env python3
"""regenerates /verif/MANIFEST.json from the table below (kept in one place so the manifest is always valid)"""
import json, os
V = os.path.dirname(os.path.dirname(os.path.abspath(__file__)))
TECH = 'bounded symbolic model checking of the real code: clang-14 LLVM IR of tlx + harness -> own IR->C translator (engine/ll2c.py) -> CBMC 6.11 SAT queries with unwinding assertions; counterexamples replayed on the native g++ build'
CLAIMED = {
 'C20': dict(text='(a) Bit-vector equivalence of every listed helper (intrinsic overload, *_template, *_generic, x86 asm rotate) with a definitional C reference, decided by SAT over the full 8/16/32/64-bit domain of each type. (b) div_ceil / round_up for 16/32/64-bit signed and unsigned operands by integer SMT over the clang IR (Int with explicit mod-2^N wrap; z3 and cvc5 must agree), full domain. (c) Aggregate<double>: A + B and A += B vs feeding all values into one aggregate, for every pair of multiset sizes 0..3 and ALL real values, as polynomial identities in real arithmetic (QF_NRA) over the clang IR of the real class - the property itself says "up to floating-point rounding".',
             note='Trusts clang-14 lowering, ll2c / ll2smt, CBMC/MiniSat, z3, cvc5. Excluded by assumption: log2/rounding of x <= 0, k == 0, negative operands of div_ceil, n+k-1 not representable. Aggregate over the reals: IEEE rounding, NaN and infinities are outside; multisets larger than 3+3 outside.',
             ref='DESIGN.md §4 C20'),
}
CLAIMED.update({
 'C15': dict(text='Every (family, entry point, n <= 16) network is run on a symbolic key vector with identity tags; SAT decides sortedness + permutation for ALL 0/1 key vectors (n = 0..16) and ALL 8-bit key vectors (n <= 6 quick, n <= 10 thorough, 2-bit keys to n = 16 thorough). Bounded by key width per n.',
             note='For n beyond the wide-key bound the general-order claim rests on the zero-one principle applied to CS_IfSwap (whose behaviour on arbitrary keys is decided by the small-n queries). Comparators: < and > on a key projection.', ref='DESIGN.md §4 C15'),
 'C09': dict(text='All eight loser-tree classes: symbolic initial keys / exhaustion, init(), then H symbolic feed-or-exhaust steps (keys not monotone); SAT decides winner-is-live, winner-is-minimal and stable tie-breaking after every step for all 8-bit keys. Bounds: k <= 3 players with H = 4, k = 4..5 with H = 2 (quick); k <= 8, H <= 6 (thorough).',
             note='Unguarded variants: keys strictly precede the sentinel, no exhaustion (documented precondition). Histories longer than the bound are outside.', ref='DESIGN.md §4 C09'),
 'C18': dict(text='Differential check of every StringView query against the real std::string_view (same pipeline) on symbolic bytes from {0x00,a,b,0x80,0xFF} (all 256 values in thorough), haystack length 0..4, needle 0..3, pos/n from {0..6,npos-1,npos}; results, copied bytes and exception kinds compared by SAT.',
             note='Cases undefined for std::string_view are assumed away (listed in the evidence). libstdc++ exception constructors are body-less stubs; only the exception type is compared.', ref='DESIGN.md §4 C18'),
})
CLAIMED.update({
 'C05': dict(text='Differential check of the real multiway_merge / stable_multiway_merge(_sentinels) code against a stable k-way selection loop: symbolic sorted sequences (each length 0..L), symbolic requested length, all 8-bit keys with identity tags; output, returned iterator and per-input advance decided by SAT per (k, algorithm, stable/unstable, sentinel, element size). Bounds: k = 0..3 with L = 2, k = 5 with L = 1 (quick); k <= 6, L <= 3, all four algorithms (thorough).',
             note='k = 4 (4-way goto state machine) is only in the thorough tier: its bound tuning did not finish in 15 min. Sequences sorted by assumption; sentinel strictly greater than all keys.', ref='DESIGN.md §4 C05'),
 'C12': dict(text='Sequential handle histories: H symbolic operations out of 17 kinds (construct from raw, copy/move construct and assign incl. self and same-object, converting overloads, reset, swap, unify, destroy) over 3+1 handles and up to 4 objects; after every step reference_count() == number of handles pointing to the object, destruction exactly when that number reaches zero; CBMC heap checks. H = 3 quick, up to 7 thorough.',
             note='The concurrent part of the property (handles released by several threads) is not yet covered by a registered query; atomics are sequentially consistent in the sequential histories.', ref='DESIGN.md §4 C12'),
 'C14': dict(text='Digest = fold of the compression function over the padded blocks. (1) Real MD5/SHA-1/SHA-256/SHA-512 process()/finalize()/digest*() code with the compression function replaced by a recorder (guarded hook): for every message length around 0, the padding edge (55/56, 111/112) and the block edge, and EVERY split into two process() calls (three in thorough), SAT decides that the blocks fed to the compression function equal the standard padding, states are chained from the IV, and raw/hex/HEX digests serialise the final state. (3) siphash_plain, siphash_sse2 and siphash() equal a SipHash-2-4 reference for all keys and all messages of length 0..16 (quick) / 0..24 (thorough).',
             note='The compression functions themselves (obligation 2) are not decided by a registered query (monolithic miter measured: no verdict in 600 s); so the claim is: equality with the standard modulo the compression step. Lengths beyond two blocks are outside.', ref='DESIGN.md §4 C14'),
 'C17': dict(text='SplayTree<uint8_t> with and without duplicates: H symbolic operations (insert, erase, exists, find, clear incl. empty tree and reuse after clear) over 4 keys; after each step membership results, size, in-order key sequence vs a reference multiset, the library check(), and CBMC leak / double-free / use-after-free checks. H = 3..4 quick, up to 6 thorough.',
             note='The LruCacheSet/LruCacheMap half of the property is not yet covered (std::unordered_map internals in libstdc++.so need contract stubs); only the SplayTree half is claimed.', ref='DESIGN.md §4 C17'),
})
NA_PENDING = {}
HOLD = set(json.load(open(os.path.join(V, 'checks', 'hold.json'))))   # built but not yet registered (quick tier not stable yet)
def main():
    props = [json.loads(l) for l in open(os.path.join(V, 'properties.jsonl'))]
    na_extra = json.load(open(os.path.join(V, 'checks', 'not_applicable.json')))
    checks = []; na = []
    for p in props:
        i = p['id']
        if i in CLAIMED and i not in na_extra and i not in HOLD:
            c = CLAIMED[i]
            checks.append(dict(property_id=i, quick_cmd='python3 checks/check.py %s quick' % i, thorough_cmd='python3 checks/check.py %s thorough' % i,
                               evidence_file='evidence/%s.json' % i, replay_cmd_template='python3 checks/replay.py {path}', engine='ll2c-cbmc',
                               level_claimed=dict(category='model_checking', text=c['text'], design_ref=c['ref']), level_note=c['note'], technique=c.get('technique', TECH)))
        else:
            na.append(dict(property_id=i, reason=na_extra.get(i, 'check not built yet in this session (work in progress; see DESIGN.md for the planned encoding)')))
    m = dict(version=1, setup_cmd='python3 checks/setup.py',
             hooks=dict(guard='TLX_VERIF', enable='checks compile /repo sources with -DTLX_VERIF (clang++-14 for the IR, g++ for native replay); no build-system change',
                        baseline_off_cmd='cd /repo && cmake -G Ninja -B _build >/dev/null && cmake --build _build >/dev/null && ctest --test-dir _build -j8 --timeout 900',
                        source_commits=json.load(open(os.path.join(V, 'checks', 'hook_commits.json'))), add_only=True),
             engines=[dict(name='ll2c-cbmc', path='engine/', serves_properties=[c['property_id'] for c in checks],
                           kind_free_text='clang-14 LLVM IR -> C translator (ll2c.py) + CBMC 6.11 bounded model checker, runner vrun.py')],
             checks=checks, not_applicable=na,
             notes='All verdicts are bounded (sizes/steps/threads/unwindings stated per query in the evidence). Exit 2 + INCONCLUSIVE line = time-out/tool error, never reported as held.')
    json.dump(m, open(os.path.join(V, 'MANIFEST.json'), 'w'), indent=1)
main()
