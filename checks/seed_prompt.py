import json,sys
pid=sys.argv[1]
props={json.loads(l)['id']:json.loads(l) for l in open('/verif/properties.jsonl')}
p=props[pid]
print(f"""You are helping to evaluate a verification effort for the C++ library tlx (header-heavy library: B+ tree, heaps, loser trees, merging, sorting, digests, string helpers, thread pool).
You get ONE semantic property of the library and your own scratch git worktree of the library at /tmp/seed_{pid} (a checkout of the current tree). Work ONLY inside /tmp/seed_{pid} and write your results to /tmp/seedout_{pid}/ . Do not read or write anything under /repo or /verif, and do not look for any verification machinery: your work must be independent of it.

PROPERTY {pid}: {p['title']}
{p['statement']}
(Quantified over: {p['quantifier']['text']})
Relevant files: {', '.join(p['anchors']['files'])}

TASK: produce TWO different, realistic code changes (bugs) to the library sources under /tmp/seed_{pid}/tlx that each BREAK this property, while the library still compiles and the existing unit tests that cover the touched code still PASS. We want subtle bugs of the kind that slip through code review and the test suite: they should need something specific to manifest (an unusual input, a particular multi-step sequence of operations, a boundary size, a particular interleaving, two cooperating sites that each look fine alone) - NOT something every ordinary use would expose at once. Single-token or few-line changes are ideal. Each change must touch only files under tlx/ (not tests/).

For each of the two changes deliver in /tmp/seedout_{pid}/<name>/ (name = short slug):
  - patch.diff   : `git diff` of the change against the worktree HEAD (apply-able with `git apply` at the repository root)
  - demo.cpp     : a small standalone program (g++ -std=c++17 -I<repo root> demo.cpp [plus needed tlx .cpp files] -pthread) that exits 0 / prints OK on the unmodified tree and exits non-zero (or prints a clear failure) with the change applied
  - meta.json    : {{"property": "{pid}", "what": "<one paragraph: what was changed and why it breaks the property>", "needs": "<what specific input/sequence/schedule is needed to manifest>", "tests_run": "<which existing tests you built and ran with the change and that they passed>", "demo_cmd": "<exact compile+run command>"}}

How to build and run the existing tests in your worktree (offline, no network):  cd /tmp/seed_{pid} && cmake -G Ninja -B _b -DTLX_BUILD_TESTS=ON -DCMAKE_BUILD_TYPE=RelWithDebInfo >/dev/null && cmake --build _b --target <test target> && ./_b/tests/<test binary>   (test sources are in tests/, targets are named like tlx_container_btree_test, tlx_math_test, tlx_string_test, tlx_sort_strings_test ... see tests/CMakeLists.txt). Build and run at least every test binary that exercises the code you touched, with the change applied, and confirm they pass; also confirm your demo passes without the change and fails with it (use `git stash` / `git apply -R` to switch). Keep only ONE build directory, use at most 4 parallel compile jobs (cmake --build _b -j4 ...), and delete the build directory (rm -rf _b) when you are finished; leave the worktree with NO modifications at the end (git checkout -- . ) - the changes live only in the patch.diff files.
Spend at most about 40 minutes. In your final answer list the two changes in 2-3 lines each.""")
