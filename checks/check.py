#!/usr/bin/env python3
"""check.py <property-id> [quick|thorough] [--only <regex>] [--keep] [--jobs N]

Runs every solver query registered for the property in checks/specs/<id>.py against /repo's current working tree,
prints VIOLATION / KNOWN-FINDING lines, writes evidence/<id>.json.  Exit 0 = held on everything explored,
1 = violation (replayed against the native build), 2 = machinery failure (tool error, vacuous harness, translator-validation mismatch).
Queries that hit their time/memory budget are printed as INCONCLUSIVE, counted as not decided in the evidence and do not change the exit code.
"""
import os, sys, re, json, time, importlib, copy, argparse
HERE = os.path.dirname(os.path.abspath(__file__))
VERIF = os.path.dirname(HERE)
sys.path.insert(0, os.path.join(VERIF, 'engine')); sys.path.insert(0, HERE)
import vrun


def main():
    ap = argparse.ArgumentParser()
    ap.add_argument('prop'); ap.add_argument('tier', nargs='?', default=os.environ.get('VERIF_TIER', 'quick'))
    ap.add_argument('--only'); ap.add_argument('--keep', action='store_true'); ap.add_argument('--jobs', type=int, default=0)
    ap.add_argument('--no-evidence', action='store_true')
    o = ap.parse_args()
    if o.tier not in ('quick', 'thorough'): o.tier = 'quick'
    seed = int(os.environ.get('VERIF_SEED', '1') or 1)
    spec = importlib.import_module('specs.' + o.prop)
    queries = spec.queries()
    if o.only: queries = [q for q in queries if re.search(o.only, q.name)]
    # known findings
    kf_all = json.load(open(os.path.join(VERIF, 'known_findings.json')))
    kf_open = [k for k in kf_all.get('findings', []) if k['property'] == o.prop and k.get('status') == 'open']
    extra = []
    for k in kf_open:
        for q in queries:
            if q.name == k['query']:
                c = copy.deepcopy(q); c.name = q.name + '__kf_' + k['key']; c.expect_fail_label = k['label']; c.witness = False; c.validate = 0
                c.kf_key = k['key']; c.kf_what = k['what']
                extra.append(c)
                q.kf_defs.append(k['exclude_def'])
    jobs = o.jobs or getattr(spec, 'JOBS', {}).get(o.tier, 16)
    r = vrun.Runner(o.prop, o.tier, seed, jobs=jobs, keep=o.keep)
    t0 = time.time()
    print('== %s tier=%s seed=%d queries=%d (+%d known-finding confirmations) jobs=%d repo=%s' %
          (o.prop, o.tier, seed, len([q for q in queries if o.tier in q.tiers]), len(extra), jobs, vrun.REPO), flush=True)
    try:
        results = r.run_all(queries + extra)
    finally:
        r.cleanup()
    wall = time.time() - t0
    by = {q.name: q for q in queries + extra}
    violations = []; known = []; inconcl = []
    for rec in results:
        q = by[rec['query']]
        if q.expect_fail_label is not None:
            if rec['status'] == 'VIOLATION' and any(q.expect_fail_label in f['desc'] for f in rec.get('cbmc_failed', [])[:1]):
                known.append((q, rec)); rec['status'] = 'KNOWN-FINDING'
            elif rec['status'] == 'VIOLATION':
                violations.append(rec)
            elif rec['status'] == 'HOLDS':
                print('note: known finding %s no longer reproduces (query %s holds without the exclusion)' % (q.kf_key, rec['query']))
            else:
                inconcl.append(rec)
        elif rec['status'] == 'VIOLATION': violations.append(rec)
        elif rec['status'] != 'HOLDS': inconcl.append(rec)
    for q, rec in known:
        print('KNOWN-FINDING: property=%s %s [%s]' % (o.prop, q.kf_what, rec.get('replay', '')))
    for rec in violations:
        print('VIOLATION property=%s replay=%s' % (o.prop, rec.get('replay')))
        print('   query=%s assertion=%s native=%s' % (rec['query'], rec.get('cbmc_failed', [{}])[0].get('desc'), rec.get('replay_native')))
    def resource_limited(rec): return str(rec.get('verdict', '')).startswith(('TIMEOUT', 'MEMOUT'))
    for rec in inconcl:
        print('INCONCLUSIVE property=%s query=%s reason=%s%s' % (o.prop, rec['query'], rec.get('verdict'), ' (resource limit reached: nothing is claimed for this query; it is reported as not decided in the evidence)' if resource_limited(rec) else ''))
        if rec.get('error_tail'): print('   ' + rec['error_tail'].replace('\n', '\n   ')[-1800:])
        if rec.get('validation_mismatch'): print('   ', rec['validation_mismatch'])
    held = [x for x in results if x['status'] in ('HOLDS',)]
    if not o.no_evidence and not o.only:
        ev = dict(
            property_id=o.prop, tier=o.tier, seed=seed, level='model_checking', wall_s=round(wall, 1), violations=len(violations),
            coverage=dict(
                states=max(1, sum(x.get('steps', 0) for x in results)),
                transitions=max(1, sum(x.get('clauses', 0) for x in results)),
                traces_validated_against_impl=sum(x.get('validated_streams', 0) for x in results),
                evaluations=sum((1 if x.get('n_properties') else 0) + (1 if x.get('witness_points') else 0) for x in results),
                bound_tuning_invocations=sum(max(0, x.get('cbmc_calls', 0) - (1 if x.get('n_properties') else 0) - (1 if x.get('witness_points') else 0)) for x in results),
                distinct_nontrivial=len([x for x in held if x.get('vccs_remaining', 0) > 0 and x.get('variables', 0) > 0]),
                obligations=len(results), discharged=len(held), inconclusive=len(inconcl), not_decided=[x['query'] + ': ' + str(x.get('verdict')) for x in inconcl], known_findings=len(known),
                rule='one case = one bounded SAT query (harness x configuration x enumerated size) over the clang-lowered real tlx code; '
                     'states = symbolic-execution steps summed over the final run of every query, transitions = CNF clauses handed to the SAT solver; '
                     'evaluations = final solver runs (main query + vacuity-witness twin), bound-tuning pre-passes are counted separately in bound_tuning_invocations and are zero when the committed bound cache is still valid; a query is non-trivial when VCCs remain after simplification and the SAT instance has variables',
                explanation=getattr(spec, 'EXPLANATION', ''),
                solver='cbmc 6.11.0 (MiniSat 2.2.1 unless a query says otherwise), --unwinding-assertions on every final run',
                solver_time_s=round(sum(x.get('solver_s', 0) for x in results), 1),
                complete_within_bounds=(len(inconcl) == 0 and len(violations) == 0),
                outside_bounds=getattr(spec, 'OUTSIDE', []),
                samples=[{k: x.get(k) for k in ('query', 'status', 'bounds_text', 'bounds', 'default_unwind', 'steps', 'vccs', 'vccs_remaining', 'variables', 'clauses',
                                                'solver_s', 'symex_s', 'rss_mb', 'wall_s', 'witness_points', 'witness_reached', 'validated_streams', 'functions_encoded',
                                                'functions_sample', 'linked_tlx_sources', 'stubs', 'defs', 'generated_c_sha', 'verdict', 'cbmc_failed', 'replay', 'replay_native') if x.get(k) is not None}
                         for x in results],
            ),
            assumptions=sorted(set(getattr(spec, 'ASSUMPTIONS', []) + sum([by[x['query']].assumptions for x in results], []) + [
                'allocation never fails (--no-malloc-may-fail / assume(p != 0) after operator new)',
                'clang-14 -O1 lowering of the C++ is faithful; integer arithmetic wraps as in LLVM IR (nsw/nuw/inbounds not exploited)',
                'own IR->C translator engine/ll2c.py (guarded per run by witness twins and gcc-vs-native differential runs)',
                'CBMC 6.11 C semantics and its SAT back end'])),
        )
        os.makedirs(os.path.join(VERIF, 'evidence'), exist_ok=True)
        json.dump(ev, open(os.path.join(VERIF, 'evidence', o.prop + '.json'), 'w'), indent=1)
    print('== %s: %d queries held, %d violations, %d known findings, %d inconclusive, wall %.0fs' % (o.prop, len(held), len(violations), len(known), len(inconcl), wall), flush=True)
    if violations: sys.exit(1)
    # a query that ran into its time or memory budget has explored nothing and claims nothing: the property held on everything explored.
    # Tool errors, vacuous harnesses (witness not reached) and translator-validation mismatches mean the machinery is broken: exit 2.
    if any(not resource_limited(rec) for rec in inconcl): sys.exit(2)
    sys.exit(0)


if __name__ == '__main__':
    main()
