from vrun import Query
SRC = 'C08_mseq.cpp'

def mk(kind, lens, mask, quick, gt=False, timeout=None):
    m = len(lens); l = list(lens) + [1] * (3 - m)
    name = '%s_%s_k%d%s' % (kind, 'x'.join(map(str, lens)), mask, '_gt' if gt else '')
    return Query(name, SRC, 'h_partition' if kind == 'part' else 'h_selection',
                 'multisequence_%s: %d sequences of lengths %s, sorted keys in 0..%d (symbolic), every rank 0..%d (symbolic), comparator %s' % ('partition' if kind == 'part' else 'selection', m, lens, mask, sum(lens), '>' if gt else '<'),
                 defs=['M=%d' % m, 'L0=%d' % l[0], 'L1=%d' % l[1], 'L2=%d' % l[2], 'KEYMASK=%d' % mask] + (['CMP_GREATER'] if gt else []), ll2c=['--alloc-cap', '64', '--introsort-small'],
                 tiers=('quick', 'thorough') if quick else ('thorough',), timeout=timeout or (1800 if quick else 7200), unwind=4, max_unwind=64, weight=sum(lens) * m,
                 witness=not (quick and sum(lens) >= 4))   # the 4-element quick query runs without its vacuity twin (4 more minutes; the twins of the other lengths reach the same REACH point of the same harness) to stay inside the 15 min of a quick run

def queries():
    qs = []
    for kind in ('part', 'sel'):
        for lens, quick in (((1,), True), ((3,), False), ((1, 1), True), ((2, 1), True), ((2, 2), False), ((3, 1), False), ((1, 3), False), ((1, 1, 2), kind == 'part'), ((1, 4), False), ((3, 3), False), ((4, 2), False), ((1, 1, 1), True), ((2, 1, 2), False), ((2, 2, 2), False), ((4, 4), False), ((5, 3), False), ((7, 1), False)):
            qs.append(mk(kind, lens, 3, quick))
        qs.append(mk(kind, (2, 2), 255, False)); qs.append(mk(kind, (2, 2), 3, False, gt=True))
    return qs

ASSUMPTIONS = ['libstdc++ std::__introsort_loop is replaced by its contract for <= 16 elements (no-op, precondition asserted); the final insertion sort and the heap operations are the real header code',
               'sequences are non-empty and sorted by the comparator (documented precondition)', 'std::sort / std::priority_queue are the real libstdc++ header code; variable-size allocations are modelled by fixed 64-byte blocks with an assertion that the request fits']
OUTSIDE = ['more than 3 sequences, lengths above 7, key domains other than 4 or 256 values']
EXPLANATION = 'direct harness on multisequence_partition / multisequence_selection with concrete lengths, symbolic sorted keys and symbolic rank; asserts rank sum, left <= right, tie rule, selected value and offset, exception for rank >= N'
JOBS = {'quick': 4, 'thorough': 3}   # measured: 8-12 GB per query
