from vrun import Query
SRC = 'C11_sync.cpp'
import os
SOLVER = ['--external-sat-solver', 'kissat'] if os.environ.get('VERIF_C11_SOLVER', 'kissat') == 'kissat' else []

def queries():
    qs = []
    for nthr, ncalls, rounds, quick in ((2, 1, 14, True), (2, 2, 24, False), (3, 1, 20, False), (3, 2, 36, False)):   # 3 threads: 23 min (found the signal/notify_one defect) -> thorough
        qs.append(Query('semaphore_t%d_c%d' % (nthr, ncalls), SRC, 'h_semaphore',
                        'tlx::Semaphore: %d threads, each a symbolic script of %d calls from {signal(), signal(n), wait(delta, slack), try_acquire}, delta in {1,2}, slack in {0,1}, initial value 0..2; every interleaving at synchronisation granularity (%d scheduler rounds, checked to suffice)' % (nthr, ncalls, rounds),
                        defs=['SEMAPHORE', 'NTHR=%d' % nthr, 'NCALLS=%d' % ncalls], conc=True, nt=nthr + 1, rounds=rounds, tiers=('quick', 'thorough') if quick else ('thorough',),
                        timeout=3600 if quick else 14400, unwind=4, max_unwind=80, witness=True, weight=nthr * ncalls, solver=SOLVER))
    for kind, nm in ((1, 'mutex'), (2, 'spin')):
        for nthr, gens, rounds, quick in ((1, 2, 12, True), (2, 1, 18, True), (2, 2, 30, False), (3, 2, 48, False), (2, 3, 44, False)):   # spin barrier with 2 threads x 2 generations: 12 min -> thorough; 2 x 1 stays quick
            qs.append(Query('barrier_%s_t%d_g%d' % (nm, nthr, gens), SRC, 'h_barrier',
                            'ThreadBarrier%s: %d threads crossing %d consecutive generations with a counting action; every interleaving at synchronisation%s granularity (%d rounds, checked to suffice)' % (nm.capitalize(), nthr, gens, ' and atomic-operation' if kind == 2 else '', rounds + (2 * gens if kind == 2 else 0)),
                            defs=['BARRIER=%d' % kind, 'NTHR=%d' % nthr, 'GENS=%d' % gens], conc=True, nt=nthr + 1, rounds=rounds + (2 * gens if kind == 2 else 0), yield_atomics=(kind == 2),
                            tiers=('quick', 'thorough') if quick else ('thorough',), timeout=3600 if quick else 14400, unwind=4, max_unwind=80, weight=nthr * gens, solver=SOLVER))
    return qs

ASSUMPTIONS = ['threads are lazily sequentialised: context switches happen only at visible operations (mutex lock, condition-variable wait, join, atomic operations for the spin barrier); sound for data-race-free code, which these classes are by construction (all state under the mutex / atomics)',
               'sequential consistency for atomics; no spurious wake-ups (every explored execution is legal, so any stranded waiter is real)',
               'counterexamples are replayed on the gcc build of the sequentialised C (the schedule is part of the input vector), not on native threads']
OUTSIDE = ['more than 3 worker threads, more than 2 calls per thread / 3 generations', 'weak-memory reorderings', 'spurious wake-ups']
EXPLANATION = 'real Semaphore / ThreadBarrierMutex / ThreadBarrierSpin code compiled against shim std::mutex/condition_variable, threads turned into step functions, symbolic scheduler; assertions on token conservation, stranded waiters, generation counters'
