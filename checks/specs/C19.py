from vrun import Query
SRC = 'C19_strings.cpp'
S = 'tlx/string/'
CAP = ['--alloc-cap', '128']
ALL = ['base64.cpp', 'hexdump.cpp', 'split.cpp', 'join_quoted.cpp', 'split_quoted.cpp', 'replace.cpp', 'trim.cpp', 'erase_all.cpp', 'pad.cpp', 'starts_with.cpp', 'ends_with.cpp', 'contains.cpp', 'to_lower.cpp', 'to_upper.cpp', 'compare_icase.cpp', 'equal_icase.cpp']

def Q(name, entry, desc, defs, link, quick=True, timeout=None, extra_ll2c=(), cap=None, **kw):
    link = ALL
    return Query(name, SRC, entry, desc, defs=defs, link=[S + l for l in link], ll2c=(['--alloc-cap', str(cap)] if cap else CAP) + list(extra_ll2c), tiers=('quick', 'thorough') if quick else ('thorough',),
                 timeout=timeout or (900 if quick else 3600), unwind=4, **kw)

def queries():
    qs = []
    for n in range(0, 9):
        for lb in (0, 4, 8):
            quick = (lb == 0 and n == 0)    # non-empty messages cost 4-8 min per solver run (256-entry tables): thorough tier; the strict-decode queries on arbitrary 0..2 character input stay quick
            qs.append(Q('b64_n%d_lb%d' % (n, lb), 'h_base64', 'base64: encode == RFC 4648, decode(encode(m)) == m; message length %d, line_break %d, all byte values' % (n, lb),
                        ['N=%d' % n, 'LB=%d' % lb], ['base64.cpp'], quick=quick, weight=n, cap=32 if n <= 4 else None, witness=not (quick and n >= 3)))   # up to 4 bytes the encoded text (<= 10 characters) stays inside the small-string buffer: 32-byte capped blocks (asserted); the two longer quick queries run without their vacuity twin (4 more minutes each; the twin of b64_n0_lb0 reaches the same REACH point of the same harness)
    for n in range(0, 6):
        qs.append(Q('b64strict_n%d' % n, 'h_base64_strict', 'strict/non-strict base64_decode on arbitrary input of length %d, all byte values' % n, ['N=%d' % n], ['base64.cpp'], quick=n <= 2, weight=n))
    for n in range(0, 7):
        qs.append(Q('hex_n%d' % n, 'h_hexdump', 'hexdump/hexdump_lc == base16, parse_hexdump inverts both; length %d, all byte values' % n, ['N=%d' % n], ['hexdump.cpp'], quick=n <= 3, weight=n))
    for n in range(0, 5):
        qs.append(Q('parsehex_n%d' % n, 'h_parse_hexdump', 'parse_hexdump on arbitrary input of length %d: decodes or throws runtime_error' % n, ['N=%d' % n], ['hexdump.cpp'], quick=n <= 3, weight=n))
    for n in range(0, 6):
        qs.append(Q('splitref_n%d' % n, 'h_split_ref', 'split(2-byte string sep, str, limit) on arbitrary input of length %d over {a,b}, every separator over {a,b}^2 (self-overlapping ones included), every limit, vs the left-to-right non-overlapping scan' % n,
                    ['N=%d' % n], ['split.cpp'], quick=n <= 3, weight=n * 3, extra_ll2c=['--unreachable', '_M_realloc_insert']))
    for parts in (1, 2, 3):
        for seplen in (1, 2):
            qs.append(Q('split_p%d_s%d' % (parts, seplen), 'h_split', 'split(%s sep, join(parts)) == parts and limit semantics; %d parts of length 0..2 over {sep bytes, a, NUL, 0xFF}' % ('char' if seplen == 1 else '2-byte string', parts),
                        ['NPARTS=%d' % parts, 'SEPLEN=%d' % seplen, 'M=2'], ['split.cpp'], quick=parts <= 2, weight=parts * 4, extra_ll2c=['--unreachable', '_M_realloc_insert']))
        qs.append(Q('quoted_p%d' % parts, 'h_quoted', 'split_quoted(join_quoted(v)) == v; %d fields of length 0..2 over {space, quote, backslash, newline, tab, a, n}' % parts,
                    ['NPARTS=%d' % parts, 'M=2'], ['join_quoted.cpp', 'split_quoted.cpp'], quick=False, weight=parts * 4 + 20, timeout=3600 if parts <= 1 else 14400, extra_ll2c=['--model-string-vector-growth', '4']))
    for n, m in ((0, 0), (1, 1), (2, 1), (3, 1), (3, 2), (4, 2), (4, 3)):
        quick = (n, m) in ((0, 0), (2, 1), (3, 2)); quick_a = (n, m) in ((0, 0),)   # helpers A with 2+ characters: 9-12 M variables, 3-6 min per solver run -> thorough tier
        qs.append(Q('helpersA_n%d_m%d' % (n, m), 'h_helpers_a', 'replace_first/all, trim family, erase_all, pad vs definitional loops; string length %d, needle/drop-set length %d, replacement length 0..2' % (n, m),
                    ['N=%d' % n, 'M=%d' % m], ['replace.cpp', 'trim.cpp', 'erase_all.cpp', 'pad.cpp'], quick=quick_a, weight=n * 3, cap=32))   # strings stay below 16 bytes (SSO): a 32-byte cap (asserted) keeps the capped blocks small
        qs.append(Q('helpersB_n%d_m%d' % (n, m), 'h_helpers_b', 'starts/ends_with(_icase), contains, to_lower/upper, compare/equal_icase, levenshtein(_icase) vs definitions; lengths %d and %d over {a,A,b,Z,[,0xE4}' % (n, m),
                    ['N=%d' % n, 'M=%d' % m], ['starts_with.cpp', 'ends_with.cpp', 'contains.cpp', 'to_lower.cpp', 'to_upper.cpp', 'compare_icase.cpp', 'equal_icase.cpp'], quick=quick, weight=n * 3))
    return qs

ASSUMPTIONS = ['std::vector<std::string> reallocation (libstdc++ environment code) is either kept off the path by a pre-reserved vector (split) or replaced by a contract model: fixed capacity of 4 strings, bitwise move with small-string pointer fix-up, append only (split_quoted/join_quoted); both preconditions are asserted',
               'tlx::join (std::ostringstream: locale, virtual dispatch, binary libstdc++) cannot be encoded; the join side of the split round trip is the definitional concatenation',
               'variable-size heap allocations (std::string beyond SSO, std::vector growth) are modelled with a fixed 128-byte block and an assertion that the request fits (ll2c --alloc-cap)',
               'libstdc++ exception constructors are body-less stubs (only the exception type is observed)']
OUTSIDE = ['tlx::join itself', 'messages longer than 8 bytes (base64) / 6 bytes (hexdump), more than 3 parts, parts longer than 2 bytes, helper arguments longer than 4 bytes', 'hexdump_sourcecode (ostringstream)']
EXPLANATION = 'real tlx/string/*.cpp linked as IR; encoders vs RFC references, round trips, helpers vs definitional loops; lengths enumerated, bytes symbolic'
JOBS = {'quick': 6, 'thorough': 4}   # measured: base64 / quoted queries use 5-8 GB each
