from vrun import Query
SRC = 'C06_pmsort.cpp'

def mk(n, nth, split, stable, quick, mask=3, timeout=None):
    name = 'n%d_p%d_%s_%s%s' % (n, nth, split, 'stable' if stable else 'unstable', '_k%d' % mask if mask != 3 else '')
    return Query(name, SRC, 'h_pmsort', '%sparallel_mergesort: %d elements (keys in 0..%d, identity tags, lifetime-ledger element type), %d threads crossing the real ThreadBarrierMutex, %s splitting; every interleaving at mutex / condition-variable granularity'
                 % ('stable_' if stable else '', n, mask, nth, split),
                 defs=['NEL=%d' % n, 'NTH=%d' % nth, 'SPLIT=MWMSA_%s' % split.upper(), 'STABLE=%d' % stable, 'KEYMASK=%d' % mask], link=['tlx/algorithm/parallel_multiway_merge.cpp'],
                 conc=True, nt=nth + 1, rounds=14 * nth + 6, ll2c=['--alloc-cap', '128', '--introsort-small'], tiers=('quick', 'thorough') if quick else ('thorough',),
                 timeout=timeout or (5400 if quick else 21600), unwind=4, max_unwind=80, weight=n * nth, mem_gb=36, recursion=2)

def queries():
    qs = []
    qs.append(mk(0, 1, 'exact', 1, True)); qs.append(mk(2, 1, 'exact', 1, True)); qs.append(mk(2, 1, 'sampling', 1, True))
    qs.append(mk(2, 2, 'sampling', 1, True)); qs.append(mk(2, 2, 'exact', 1, True)); qs.append(mk(1, 2, 'exact', 1, True))
    for n in (3, 4):
        for nth in (1, 2):
            for split in ('exact', 'sampling'):
                for st in (1, 0):
                    qs.append(mk(n, nth, split, st, False))
    qs.append(mk(3, 3, 'exact', 1, False)); qs.append(mk(2, 2, 'exact', 0, False)); qs.append(mk(3, 2, 'exact', 1, False, mask=255))
    return qs

JOBS = {'quick': 3, 'thorough': 2}
ASSUMPTIONS = ['threads are lazily sequentialised: context switches at mutex lock, condition-variable wait and join; between barriers the threads work on disjoint pieces (single-writer monitor as in C07 is not installed here: data races are not decided, only the functional result under every barrier-level interleaving)',
               'libstdc++ std::__introsort_loop replaced by its <= 16 element contract; variable-size allocations modelled by fixed 128-byte blocks (asserted to fit)', 'no spurious wake-ups; sequential consistency']
OUTSIDE = ['more than 4 elements, more than 3 threads', 'data-race freedom of the element accesses between barriers']
EXPLANATION = 'real parallel_mergesort_base / parallel_sort_mwms_pu with the real barrier, std::(stable_)sort, multisequence_partition and multiway_merge_base; result compared with the stable order, lifetime ledger for temporaries, deadlock check'
