from vrun import Query
ALG = [('md5', 0, 64), ('sha1', 1, 64), ('sha256', 2, 64), ('sha512', 3, 128)]

def queries():
    qs = []
    for nm, a, blk in ALG:
        src = ['tlx/digest/%s.cpp' % nm, 'tlx/string/hexdump.cpp']
        lenb = 16 if blk == 128 else 8
        edge = blk - lenb            # 56 / 112: first length that needs a second block is edge
        if blk == 128:   # SHA-512: 128-byte blocks make every run ~4x larger; one or two lengths per query (measured: 3 lengths at 127..129 = 19 M variables)
            ranges = [(0, 3, True), (edge - 1, edge, True), (blk - 1, blk, True), (edge - 2, edge - 2, False), (edge + 1, edge + 1, False), (blk + 1, blk + 1, False), (4, 8, False), (blk + edge - 1, blk + edge, False)]
        else:
          ranges = [(0, 3, True), (edge - 2, edge + 1, True), (blk - 1, blk + 1, True), (4, 12, False), (edge - 8, edge - 3, False), (edge + 2, blk - 2, False),
                    (blk + 2, blk + 8, False), (blk + edge - 2, blk + edge + 1, False), (2 * blk - 1, 2 * blk + 2, False)]
        for lo, hi, quick in ranges:
            qs.append(Query('%s_chunk_n%d_%d' % (nm, lo, hi), 'C14_digest.cpp', 'h_chunking',
                            '%s: every message length %d..%d, every split into two process() calls, all byte values; compression function = recorder' % (nm.upper(), lo, hi),
                            defs=['ALGO=%d' % a, 'NMIN=%d' % lo, 'NMAX=%d' % hi, 'TLX_VERIF_DIGEST_HOOK'], link=src, ll2c=['--alloc-cap', '256'],
                            tiers=('quick', 'thorough') if quick else ('thorough',), timeout=1800 if quick else 7200, unwind=4, max_unwind=700, weight=hi))
        qs.append(Query('%s_chunk3_n%d_%d' % (nm, edge - 1, edge), 'C14_digest.cpp', 'h_chunking', '%s: lengths %d..%d, every split into three process() calls' % (nm.upper(), edge - 1, edge),
                        defs=['ALGO=%d' % a, 'NMIN=%d' % (edge - 1), 'NMAX=%d' % edge, 'TRIPLE', 'TLX_VERIF_DIGEST_HOOK'], link=src, ll2c=['--alloc-cap', '256'], tiers=('thorough',), timeout=3600, unwind=4, max_unwind=300))
        qs.append(Query('%s_hexforms' % nm, 'C14_digest.cpp', 'h_hexforms', '%s: digest(), digest_hex(), digest_hex_uc(), %s_hex(), %s_hex_uc() serialise the final state; message length 5' % (nm.upper(), nm, nm),
                        defs=['ALGO=%d' % a, 'NMAX=5', 'TLX_VERIF_DIGEST_HOOK'], link=src, ll2c=['--alloc-cap', '256'], timeout=1200, unwind=4, max_unwind=300))
    import os
    ref = os.path.join(os.path.dirname(os.path.dirname(os.path.dirname(os.path.abspath(__file__)))), 'harness', 'C14_sipref.c')
    for ln in range(0, 25):
        for off in ((0, 3) if ln in (7, 8, 9, 16) else (0,)):
            quick = ln in (0, 1, 7, 8, 9, 15, 16) and off == 0 or (ln == 9 and off == 3)
            qs.append(Query('siphash_len%d_off%d' % (ln, off), 'C14_siphash.cpp', 'h_siphash', 'siphash_plain, siphash_sse2, siphash() vs SipHash-2-4 reference: all 128-bit keys, message length %d, start offset %d mod 8, all byte values' % (ln, off),
                            defs=['LEN=%d' % ln, 'OFF=%d' % off], extra_c=['C14_sipref.c'], native_extra=[ref], solver=['--external-sat-solver', 'kissat'], tiers=('quick', 'thorough') if quick else ('thorough',), timeout=1800, unwind=10, weight=ln))
    return qs

ASSUMPTIONS = ['obligation 1 replaces the compression function by a recorder through the guarded hook TLX_VERIF_DIGEST_HOOK (fresh symbolic output state per call): it decides buffering, padding, chaining and serialisation for every chunking, not the round function',
               'message lengths fit the 32-bit size argument of process()']
OUTSIDE = ['messages longer than two blocks + 2 bytes', 'more than three process() calls per message', 'compression-function equivalence where the miter did not close (reported per algorithm)']
EXPLANATION = 'digest = fold of the compression function over the padded blocks (definition in FIPS 180-4 / RFC 1321): recorder harness for the fold, separate miters for the compression step, SipHash differential'
