from vrun import Query
SRC = 'C13_heaps.cpp'

def queries():
    qs = []
    for ar in (1, 2, 3, 4, 8):
        for h in (2, 3, 4, 5, 6):
            quick = (h == 3 and ar in (2, 3))
            quick_addr = (h == 2 and ar in (2, 3))   # measured: the addressable heap at h = 3 needs > 15 min once it holds
            qs.append(Query('dary_a%d_h%d' % (ar, h), SRC, 'h_daryheap', 'DAryHeap<uint8_t, arity %d>, %d symbolic operations (push, pop, extract_top, build_heap of <= 3 keys (both overloads), clear, update_all) + drain, all 8-bit keys' % (ar, h),
                            defs=['ARITY=%d' % ar, 'H=%d' % h], ll2c=['--alloc-cap', '16'], tiers=('quick', 'thorough') if quick else ('thorough',), timeout=900 if quick else 3600, weight=h * 2))
            qs.append(Query('addr_a%d_h%d' % (ar, h), SRC, 'h_addrheap', 'DAryAddressableIntHeap<uint8_t, arity %d, external priority table>, keys 0..5, %d symbolic operations (push, pop, extract_top, remove, update after priority change, build_heap on empty and non-empty heap, clear)' % (ar, h),
                            defs=['ARITY=%d' % ar, 'H=%d' % h], ll2c=['--alloc-cap', '16'], tiers=('quick', 'thorough') if quick_addr else ('thorough',), timeout=1800 if quick_addr else 7200, weight=h * 3))
    qs.append(Query('dary_a2_h3_gt', SRC, 'h_daryheap', 'DAryHeap arity 2, comparator >, 3 symbolic operations', defs=['ARITY=2', 'H=3', 'CMP_GREATER'], tiers=('thorough',), timeout=3600))
    qs.append(Query('addr_a2_h2_growth', SRC, 'h_addrheap', 'addressable heap arity 2 without reserve (handle table and std::vector growth paths live), 2 symbolic operations', defs=['ARITY=2', 'H=2', 'NORESERVE'], ll2c=['--alloc-cap', '64'], tiers=('thorough',), timeout=3600))   # measured 22 min
    qs.append(Query('addr_a2_h3_growth', SRC, 'h_addrheap', 'addressable heap arity 2 without reserve (std::vector growth paths live), 3 symbolic operations', defs=['ARITY=2', 'H=3', 'NORESERVE'], tiers=('thorough',), timeout=3600))
    qs.append(Query('dary_a2_h3_growth', SRC, 'h_daryheap', 'DAryHeap arity 2 without pre-reserved capacity (std::vector growth paths live), 3 symbolic operations', defs=['ARITY=2', 'H=3', 'NORESERVE'], tiers=('thorough',), timeout=3600))
    for bits, ty in ((8, 'uint8_t'), (16, 'uint16_t'), (32, 'uint32_t'), (64, 'uint64_t')):
        for radix in (2, 4, 8, 16, 64):
            quick = (radix in (2, 4, 16)) or (bits <= 16)
            qs.append(Query('radix_bucket_r%d_u%d' % (radix, bits), SRC, 'h_radix_bucket',
                            'BucketComputation<%d, %s>: all limit <= m <= x <= y over the full %d-bit domain: index range, monotonicity, bucket 0, redistribution, bounds' % (radix, ty, bits),
                            defs=['RADIX=%d' % radix, 'RINT=' + ty], tiers=('quick', 'thorough') if quick else ('thorough',), timeout=900 if quick else 3600, unwind=70, max_unwind=80))
    SCRIPTS_Q = ['ppok', 'ppsk', 'epto', 'pok', 'ppot', 'pocppt']     # pocppt: reuse after clear() with a bucket pointer left over from before
    SCRIPTS_T = ['pppo', 'ppso', 'pospk', 'ppcpk', 'ppopt', 'pepsp', 'ppoppk', 'pposk', 'eesok', 'ptptpt']
    for radix in (2, 4, 16):
        for key in ('uint8_t', 'int8_t'):
            for sc in SCRIPTS_Q + SCRIPTS_T:
                quick = sc in SCRIPTS_Q and radix == 4 and key == 'uint8_t' or (sc == 'ppsk' and radix == 2 and key == 'int8_t') or (sc == 'ppot' and radix == 2)   # radix 2: a key equal to the largest value of the key type meets the empty-bucket sentinel
                qs.append(Query('radixheap_r%d_%s_%s' % (radix, key.replace('_t', ''), sc), SRC, 'h_radixheap',
                                'RadixHeap<%s keys, radix %d>: scripted operation kinds "%s" (p push, e emplace, t top, o pop, k peak_top_key, s swap_top_bucket, c clear) with symbolic monotone 8-bit keys, vs multiset model (at most 4 stored elements)' % (key, radix, sc),
                                defs=['RADIX=%d' % radix, 'RKEY=' + key, 'H=%d' % len(sc), 'SCRIPT="%s"' % sc, 'RINT=uint32_t'], link=['tlx/die/core.cpp'], ll2c=['--alloc-cap', '8'], tiers=('quick', 'thorough') if quick else ('thorough',),
                                timeout=1800 if quick else 7200, unwind=4, max_unwind=64, weight=len(sc) * 4))
    qs.append(Query('radixheap_r4_uint8_ppo_drain', SRC, 'h_radixheap', 'RadixHeap<uint8_t, radix 4>: script ppo then drain in non-decreasing order', defs=['RADIX=4', 'RKEY=uint8_t', 'H=3', 'SCRIPT="ppo"', 'DRAIN', 'RINT=uint32_t'], link=['tlx/die/core.cpp'], ll2c=['--alloc-cap', '8'], tiers=('thorough',), timeout=7200, unwind=4, max_unwind=64))
    qs.append(Query('radixheap_r4_uint8_sym_h2', SRC, 'h_radixheap', 'RadixHeap<uint8_t, radix 4>: 2 fully symbolic operations + drain', defs=['RADIX=4', 'RKEY=uint8_t', 'H=2', 'RINT=uint32_t'], link=['tlx/die/core.cpp'], ll2c=['--alloc-cap', '8'],
                    tiers=('thorough',), timeout=7200, unwind=4, max_unwind=64))
    qs.append(Query('radix_rank', SRC, 'h_radix_rank', 'IntegerRank<int8/16/32/64, uint32>: order preserving and invertible on the full domain', unwind=3))
    return qs

ASSUMPTIONS = ['history queries give every std::vector a concrete capacity of 8 up front (reserve / moved-in vector), so libstdc++ reallocation is not on a feasible path except in the *_growth queries',
               'addressable heap: keys are unique unsigned integers, update(key) is called after a priority change (documented)', 'radix heap: keys are not smaller than the current insertion limit (monotonicity precondition)']
OUTSIDE = ['RadixHeap histories beyond the listed operation scripts (operation kinds are scripted, keys symbolic; measured: 3 fully symbolic operations = 19 M variables, no verdict in 30 min)', 'whole RadixHeap histories with 16/32/64-bit keys (only the bucket/rank kernels are decided at those widths)', 'arity > 8, more than 6 operations, key universe > 6', 'the library self-check sanity_check() (std::queue) is not called']
EXPLANATION = 'symbolic operation histories vs multiset / key-set models; radix-heap bucket arithmetic as full-width bit-vector queries'
