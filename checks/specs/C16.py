from vrun import Query
SRC = 'C16_ringbuffer.cpp'

def queries():
    qs = []
    for cap in range(0, 6):
        for h in (3, 4, 5, 6):
            quick = (h == 3 and cap in (0, 1)) or (h == 2 and cap in (2, 3, 5))    # 3 operations at max_size 2..5 take 6-7 min each: thorough tier
            qs.append(Query('rb_cap%d_h%d' % (cap, h), SRC, 'h_ringbuffer',
                            'RingBuffer<Tracked>(max_size=%d), %d symbolic operations out of 20 kinds (push/emplace/pop both ends, clear, copy/move construct, copy/move assign from a buffer of max_size 2 and into a moved-from buffer, deallocate+allocate with the same and a different size, self-assign), all 8-bit values' % (cap, h),
                            defs=['CAP=%d' % cap, 'H=%d' % h], ll2c=['--alloc-cap', '16'], tiers=('quick', 'thorough') if quick else ('thorough',), timeout=900 if quick else 3600, weight=(cap + 1) * h, unwind=3))
        qs.append(Query('rb_own_cap%d_h3' % cap, SRC, 'h_ringbuffer',
                        'heap-owning element type, max_size=%d, 3 symbolic operations, with CBMC memory-leak / double-free / use-after-free checks' % cap,
                        defs=['CAP=%d' % cap, 'H=3', 'OWN'], ll2c=['--alloc-cap', '128'], cbmc=['--memory-leak-check'], tiers=('thorough',), timeout=7200, weight=20, unwind=3))   # measured: > 60 min at cap 2 (heap-owning elements + leak check)
    for mode in ('Normal', 'NoInitButDestroy', 'NoInitNoDestroy'):
        for h in (3, 5):
            qs.append(Query('sv_%s_h%d' % (mode, h), SRC, 'h_simplevector',
                            'SimpleVector<Tracked, %s>, sizes 0..3, %d symbolic operations (resize, move construct/assign, swap, destroy, fill, self-move)' % (mode, h),
                            defs=['SVMODE=' + mode, 'H=%d' % h], ll2c=['--alloc-cap', '32'], tiers=('quick', 'thorough') if h == 3 else ('thorough',), timeout=1800, weight=h * 3, unwind=3))
    qs.append(Query('sv_own_Normal_h3', SRC, 'h_simplevector', 'SimpleVector, heap-owning element type, 3 symbolic operations, CBMC leak/double-free checks',
                    defs=['SVMODE=Normal', 'H=3', 'OWN'], ll2c=['--alloc-cap', '128'], cbmc=['--memory-leak-check'], tiers=('thorough',), timeout=1800, unwind=3))
    return qs

ASSUMPTIONS = ['operations respect the documented preconditions: push only while size() < max_size(), pop/front/back only when non-empty',
               'SimpleVector NoInit* modes are checked against their documented contract only (sizes, no double free), not the alive-iff-stored ledger']
OUTSIDE = ['max_size > 5, histories longer than 6 operations', 'save/load (serialisation archive), copy_to/move_to (std::vector growth)']
EXPLANATION = 'symbolic operation histories against a bounded-deque model plus a lifetime ledger element type'
