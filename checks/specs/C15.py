from vrun import Query
SRC = 'C15_networks.cpp'
FAMS = [('best', 'best'), ('bn', 'bose_nelson'), ('bnp', 'bose_nelson_parameter')]

def queries():
    qs = []
    for f, fn in FAMS:
        for ent in ('dispatch', 'direct'):
            lo = 0 if ent == 'dispatch' else 2
            for cmp_ in ('Less', 'Greater'):
                # all n in one query, 1-bit keys (zero-one principle; every 0/1 input, identity tags)
                qs.append(Query('%s_%s_%s_01' % (f, ent, cmp_.lower()), SRC, 'h_%s_%s' % (f, ent),
                                '%s, %s entry, comparator %s: every n = %d..16, every 0/1 key vector, identity tags' % (fn, ent, cmp_, lo),
                                defs=['KEYMASK=1', 'NMIN=%d' % lo, 'NMAX=16', 'CMP=' + cmp_], unwind=18, timeout=900))
            # 8-bit keys for small n
            qs.append(Query('%s_%s_k8_n2to6' % (f, ent), SRC, 'h_%s_%s' % (f, ent),
                            '%s, %s entry: n = 2..6, all 8-bit key vectors' % (fn, ent),
                            defs=['KEYMASK=255', 'NMIN=2', 'NMAX=6'], unwind=18, timeout=900))
            for n in (7, 8, 9, 10):
                qs.append(Query('%s_%s_k8_n%d' % (f, ent, n), SRC, 'h_%s_%s' % (f, ent),
                                '%s, %s entry: n = %d, all 8-bit key vectors' % (fn, ent, n),
                                defs=['KEYMASK=255', 'NMIN=%d' % n, 'NMAX=%d' % n], unwind=18, timeout=1800, tiers=('thorough',)))
            for n in (11, 12, 13, 14, 15, 16):
                qs.append(Query('%s_%s_k2_n%d' % (f, ent, n), SRC, 'h_%s_%s' % (f, ent),
                                '%s, %s entry: n = %d, all 2-bit key vectors' % (fn, ent, n),
                                defs=['KEYMASK=3', 'NMIN=%d' % n, 'NMAX=%d' % n], unwind=18, timeout=1800, tiers=('thorough',)))
    return qs

ASSUMPTIONS = ['comparators are key projections (< and > on an 8-bit key); for n beyond the wide-key bound the general-order claim rests on the zero-one principle applied to the compare-exchange functor CS_IfSwap, whose behaviour on arbitrary keys is decided by the small-n wide-key queries']
OUTSIDE = ['general (non 0/1) keys for the n where the wide-key query is not in the tier', 'element types with non-trivial copy']
EXPLANATION = 'each query: symbolic key vector with identity tags through the real network code; asserts sortedness, permutation and key/tag consistency'
