from vrun import Query
SRC = 'C01_btree.cpp'
CN = ['set', 'multiset', 'map', 'multimap']
PN = {0: 'empty tree', 1: 'two levels (6 ascending keys)', 2: 'leaves at minimum fill after erasures', 3: 'three levels (ascending inserts)', 4: 'descending inserts', 5: 'bulk-loaded at an exact capacity multiple', 6: 'duplicate run spanning leaves'}

def mk(prop, cont, leaf, inner, bins, pre, ops, group, quick, gt=False):
    name = '%s_l%di%d_%s_p%d_g%d_k%d%s' % (CN[cont], leaf, inner, 'bin' if bins else 'lin', pre, group, ops, '_gt' if gt else '')
    defs = ['CONT=%d' % cont, 'LEAF=%d' % leaf, 'INNER=%d' % inner, 'BINSEARCH=%d' % bins, 'PRE=%d' % pre, 'OPS=%d' % ops, 'GROUP=%d' % group] + (['CMP_GREATER'] if gt else [])
    if prop == 'C02': defs.append('VERIFY')
    return Query(name, SRC, 'h_btree',
                 'btree_%s, leaf_slots=%d inner_slots=%d, %s in-node search, prefix: %s, then %d symbolic operations (%s), keys 0..31, symbolic probe for find/exists/count/bounds/equal_range%s%s'
                 % (CN[cont], leaf, inner, 'binary' if bins else 'linear', PN[pre], ops, 'insert / erase(key) / erase_one / erase(iterator)' if group == 0 else 'copy / assign / swap / clear / bulk_load / compare',
                    ', comparator >' if gt else '', '; verify() after every step + counting allocator' if prop == 'C02' else ''),
                 defs=defs, link=['tlx/die/core.cpp'] if prop == 'C02' else [], cbmc=['--memory-leak-check'] if prop == 'C02' else [], tiers=('quick', 'thorough') if quick else ('thorough',),
                 timeout=5400 if quick else 14400, mem_gb=30, objbits=10, unwind=3, max_unwind=64, weight=(pre + 1) * ops, validate=12)

def build(prop):
    qs = []
    # quick: (4,4), set + multiset (+ map for the copy group), k = 1..2
    for cont in (0, 1):
        for pre in (1, 2, 6):
            qs.append(mk(prop, cont, 4, 4, 0, pre, 2 if pre == 1 else 1, 0, True))
    qs.append(mk(prop, 2, 4, 4, 0, 1, 1, 1, True))
    qs.append(mk(prop, 0, 4, 4, 1, 1, 1, 0, True))
    qs.append(mk(prop, 3, 4, 4, 0, 6, 1, 0, True))
    # thorough: all containers x capacity pairs x both searches x scripts
    for cont in range(4):
        for (l, i_) in ((4, 4), (4, 5), (5, 4), (8, 8)):
            for bins in (0, 1):
                for pre in (0, 1, 2, 3, 4, 5, 6):
                    for group in (0, 1):
                        k = 2 if (l, i_) == (4, 4) and pre in (1, 2, 6) else 1
                        qs.append(mk(prop, cont, l, i_, bins, pre, k, group, False))
    qs.append(mk(prop, 0, 4, 4, 0, 1, 2, 0, False, gt=True))
    qs.append(mk(prop, 0, 4, 4, 0, 1, 3, 0, False))
    seen = set(); out = []
    for q in qs:
        if q.name in seen: continue
        seen.add(q.name); out.append(q)
    return out

def queries(): return build('C01')
JOBS = {'quick': 2, 'thorough': 2}   # measured: 15-24 GB per query while bounds are tuned
ASSUMPTIONS = ['model = sorted array where a new equivalent key goes after the existing ones (std::multiset/multimap order); for multimap only the per-key multiset of values is compared',
               'keys are 8-bit from a universe of 32, comparators std::less / std::greater']
OUTSIDE = ['more symbolic operations than stated per query, node capacities above 8, allocator variations, key types with non-trivial copy', 'a 4-level tree is only reached by scripts, never by the symbolic suffix']
EXPLANATION = 'concrete prefix script drives the tree into a boundary shape, then symbolic API operations; every return value, iterator position (as rank), size, forward and reverse iteration compared with an ordered-container model'
