from vrun import Query
SRC = 'C01_btree.cpp'
CN = ['set', 'multiset', 'map', 'multimap']
PN = {0: 'empty tree', 1: 'two levels (6 ascending keys)', 2: 'leaves at minimum fill after erasures', 3: 'three levels (ascending inserts)', 4: 'descending inserts', 5: 'bulk-loaded at an exact capacity multiple', 6: 'duplicate run spanning leaves', 7: 'run of three equivalent keys crossing a leaf boundary', 8: 'single entry (root leaf)', 9: 'minimum-fill leaf between a full left and a 3-entry right sibling'}

LEVELS = {0: 1, 1: 2, 2: 2, 3: 3, 4: 2, 5: 2, 6: 2, 7: 2, 8: 1, 9: 2}   # tree height reached by each prefix script; recursion bound = re-entries needed, +1 per further symbolic operation (root split), +1 for verify() after a split

OPN = {0: ['insert', 'erase(key)', 'erase_one(key)', 'erase(iterator from lower_bound)'], 1: ['copy-construct', 'assign', 'swap', 'clear', 'bulk_load of a symbolic sorted range', 'copy + insert + compare']}

def mk(prop, cont, leaf, inner, bins, pre, ops, group, quick, gt=False, opk=None, timeout=None, bulk=None):
    name = '%s_l%di%d_%s_p%d_g%d_k%d%s%s' % (CN[cont], leaf, inner, 'bin' if bins else 'lin', pre, group, ops, '_gt' if gt else '', '' if opk is None else '_o%d' % opk)
    defs = ['CONT=%d' % cont, 'LEAF=%d' % leaf, 'INNER=%d' % inner, 'BINSEARCH=%d' % bins, 'PRE=%d' % pre, 'OPS=%d' % ops, 'GROUP=%d' % group] + (['CMP_GREATER'] if gt else [])
    if opk is not None: defs.append('OPK=%d' % opk)
    if bulk is not None: defs.append('BULKCNT=%d' % bulk); name += '_b%d' % bulk
    if prop == 'C02': defs.append('VERIFY')
    opsdesc = ('symbolic operations (%s)' % ' / '.join(OPN[group])) if opk is None else ('operation%s of kind %s with symbolic arguments' % ('s' if ops > 1 else '', OPN[group][opk]))
    return Query(name, SRC, 'h_btree',
                 'btree_%s, leaf_slots=%d inner_slots=%d, %s in-node search, prefix: %s, then %d %s, keys 0..31, symbolic probe for find/exists/count/bounds/equal_range%s%s'
                 % (CN[cont], leaf, inner, 'binary' if bins else 'linear', PN[pre], ops, opsdesc,
                    ', comparator >' if gt else '', '; verify() after every step + counting allocator' if prop == 'C02' else ''),
                 defs=defs, link=[], cbmc=['--memory-leak-check'] if prop == 'C02' else [], tiers=('quick', 'thorough') if quick else ('thorough',),
                 timeout=timeout or (3600 if quick else 10800), mem_gb=30, objbits=10, unwind=3 if opk == 3 and group == 0 else 6, max_unwind=700 if pre == 3 else 64,
                 recursion=max(1, LEVELS.get(pre, 2) - 1 + (ops - 1)), weight=(pre + 1) * ops + (8 if opk == 3 else 0), validate=12)

def build(prop):
    qs = []
    # quick: (4,4), one symbolic operation per query with the operation kind enumerated by the spec (each kind is its own SAT query)
    for cont, pre in ((0, 1), (1, 1), (0, 2), (1, 6), (1, 7)):
        for opk in (0, 1, 2):
            if (pre, opk) == (6, 1): continue      # erase(key) of a 7-fold run: measured memory-out at 30 GB; the 3-fold run (prefix 7) is used instead, the long run is in the thorough tier
            if (cont, pre, opk) == (1, 1, 1): continue   # multiset erase(key) on distinct keys: 15 M variables / 22 min, thorough tier (the duplicate-run prefix 7 covers erase(key) of a multiset)
            q_ = not ((cont, pre) in ((1, 1), (1, 6)) or (pre, opk) in ((7, 1), (7, 2), (1, 2), (2, 0), (2, 2)))   # the whole quick tier has to end within 15 min: multiset on distinct keys / 7-fold run and erase(key) of the 3-fold run (9 min) are thorough
            qs.append(mk(prop, cont, 4, 4, 0, pre, 1, 0, q_, opk=opk))
    # erase(iterator): measured 10-25 min and 8-14 GB per query; the quick tier keeps the underflow-between-unequal-siblings shape, the other shapes are in the thorough tier
    qs.append(mk(prop, 0, 4, 4, 0, 9, 1, 0, False, opk=3)); qs.append(mk(prop, 0, 4, 4, 0, 9, 1, 0, True, opk=2))   # underflow with unequal siblings: shift from the fuller side
    for opk in (0, 1, 2, 3): qs.append(mk(prop, 0, 4, 4, 0, 8, 1, 0, True, opk=opk))      # emptying the tree and growing the first leaf
    for opk in (0, 1, 2): qs.append(mk(prop, 0, 4, 4, 1, 1, 1, 0, False, opk=opk))          # binary in-node search (thorough)
    for opk in (0, 2): qs.append(mk(prop, 3, 4, 4, 0, 7, 1, 0, False, opk=opk))            # multimap, duplicate run: measured 21 M variables / memory-out -> thorough tier (the per-key value-multiset comparison of the harness is the expensive part)
    for opk in (0, 1, 2, 3, 5): qs.append(mk(prop, 2, 4, 4, 0, 1, 1, 1, opk != 5, opk=opk))  # map: whole-tree operations
    qs.append(mk(prop, 2, 4, 4, 0, 0, 1, 1, True, opk=1))   # assignment FROM an empty tree into a non-empty one
    for bulk in (0, 1, 4, 5, 6, 9): qs.append(mk(prop, 2, 4, 4, 0, 1, 1, 1, bulk == 5, opk=4, bulk=bulk))   # bulk_load of a symbolic sorted range of enumerated length
    # thorough: containers x capacity pairs x both searches x scripts, one operation kind per query; two symbolic operations for (4,4)
    for cont in range(4):
        for pre in (0, 1, 2, 3, 4, 5, 6, 7, 8, 9):
            for opk in (0, 1, 2, 3): qs.append(mk(prop, cont, 4, 4, 0, pre, 1, 0, False, opk=opk))
    for cont in (0, 2):
        for pre in (1, 5):
            for opk in (0, 1, 2, 3, 5): qs.append(mk(prop, cont, 4, 4, 0, pre, 1, 1, False, opk=opk))
            qs.append(mk(prop, cont, 4, 4, 0, pre, 1, 1, False, opk=4, bulk=5))
    for cont in (0, 1):
        for pre in (1, 2, 6):
            for opk in (0, 1, 2, 3): qs.append(mk(prop, cont, 4, 4, 1, pre, 1, 0, False, opk=opk))
        for (l, i_) in ((4, 5), (5, 4)):
            for pre in (1, 2):
                for opk in (0, 1, 2, 3): qs.append(mk(prop, cont, l, i_, 0, pre, 1, 0, False, opk=opk))
    for pre in (1, 5):
        for opk in (0, 1, 2, 3): qs.append(mk(prop, 0, 8, 8, 0, pre, 1, 0, False, opk=opk))
    for cont in (0, 1):
        for pre in (1, 2, 6):
            qs.append(mk(prop, cont, 4, 4, 0, pre, 2, 0, False))
    for opk in (0, 1, 2): qs.append(mk(prop, 0, 4, 4, 0, 1, 1, 0, False, gt=True, opk=opk))
    seen = set(); out = []
    for q in qs:
        if q.name in seen: continue
        seen.add(q.name); out.append(q)
    return out

def queries(): return build('C01')
JOBS = {'quick': 8, 'thorough': 4}   # measured: 2.5-8 GB per query (erase(iterator) queries up to 20 GB)
ASSUMPTIONS = ['model = sorted array where a new equivalent key goes after the existing ones (std::multiset/multimap order); for multimap only the per-key multiset of values is compared',
               'keys are 8-bit from a universe of 32, comparators std::less / std::greater']
OUTSIDE = ['more symbolic operations than stated per query, node capacities above 8, allocator variations, key types with non-trivial copy', 'a 4-level tree is only reached by scripts, never by the symbolic suffix']
EXPLANATION = 'concrete prefix script drives the tree into a boundary shape, then symbolic API operations; every return value, iterator position (as rank), size, forward and reverse iteration compared with an ordered-container model'
