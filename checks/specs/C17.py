from vrun import Query

def queries():
    qs = []
    for dup in (0, 1):
        for h in (3, 4, 5, 6):
            quick = h <= 4
            qs.append(Query('splay_%s_h%d' % ('multi' if dup else 'set', h), 'C17_splay.cpp', 'h_splay',
                            'SplayTree<uint8_t, less, Duplicates=%s>: %d symbolic operations (insert, erase, exists, find, clear) over keys 0..3, incl. empty tree and reuse after clear(); after each step size, in-order sequence, check(); leak/double-free checks' % ('true' if dup else 'false', h),
                            defs=['DUP=%d' % dup, 'H=%d' % h], cbmc=['--memory-leak-check'], tiers=('quick', 'thorough') if quick else ('thorough',), timeout=900 if quick else 3600, unwind=4, weight=h))
    return qs

ASSUMPTIONS = ['comparator std::less on 8-bit keys from a universe of 4 keys, at most 6 stored elements']
OUTSIDE = ['histories longer than 6 operations, key universes larger than 4', 'LRU caches with more than the stated bound']
EXPLANATION = 'symbolic operation histories against reference multiset / recency-list models; CBMC heap checks for exact node release'
