from vrun import Query

def queries():
    qs = []
    for dup in (0, 1):
        for h in (3, 4, 5, 6):
            quick = h <= 4
            qs.append(Query('splay_%s_h%d' % ('multi' if dup else 'set', h), 'C17_splay.cpp', 'h_splay',
                            'SplayTree<uint8_t, less, Duplicates=%s>: %d symbolic operations (insert, erase, exists, find, clear) over keys 0..3, incl. empty tree and reuse after clear(); after each step size, in-order sequence, check(); leak/double-free checks' % ('true' if dup else 'false', h),
                            defs=['DUP=%d' % dup, 'H=%d' % h], cbmc=['--memory-leak-check'], tiers=('quick', 'thorough') if quick else ('thorough',), timeout=900 if quick else 3600, unwind=4, weight=h))
    for pre, h, quick in ((1, 3, False), (2, 3, False), (2, 4, False)):      # measured: pre1_h3 ~26 min, pre2_h3 > 30 min -> thorough
        qs.append(Query('splay_multi_pre%d_h%d' % (pre, h), 'C17_splay.cpp', 'h_splay',
                        'SplayTree<uint8_t, less, Duplicates=true>: prefix script (insert 1,1,1%s: a run of equivalent keys), then %d symbolic operations over keys 0..%d; same checks' % (',0' if pre == 2 else '', h, 2 if quick else 3),
                        defs=['DUP=1', 'H=%d' % h, 'PRE=%d' % pre] + (['NKEY=3'] if quick else []), cbmc=['--memory-leak-check'], tiers=('quick', 'thorough') if quick else ('thorough',), timeout=3600 if quick else 7200, unwind=4, weight=h + 20))
    for mapmode in (0, 1):
        for h in (2, 3, 4, 5):
            quick = h <= 2
            qs.append(Query('lru_%s_h%d' % ('map' if mapmode else 'set', h), 'C17_lru.cpp', 'h_lru',
                            'LruCache%s<uint8_t%s>: %d symbolic operations (put, touch, touch_if_exists, erase, erase_if_exists, pop, clear%s) over 3 keys vs a reference recency list; exceptions exactly for absent keys' % ('Map' if mapmode else 'Set', ', uint8_t' if mapmode else '', h, ', get' if mapmode else ''),
                            defs=['MAPMODE=%d' % mapmode, 'H=%d' % h], extra_c=['C17_stubs.c'], ll2c=['--alloc-cap', '128'], cbmc=['--memory-leak-check'], validate=0,
                            tiers=('quick', 'thorough') if quick else ('thorough',), timeout=3600 if quick else 14400, unwind=4, max_unwind=64, weight=h * 2))
    return qs

ASSUMPTIONS = ['LRU queries: the libstdc++.so parts of std::list (_M_hook/_M_unhook/_M_transfer) and std::unordered_map (_Prime_rehash_policy) are C models written after the libstdc++ sources (harness/C17_stubs.c); max_load_factor 1.0; the generated C cannot be linked against the native library parts, so translator validation is off for these queries',
               'comparator std::less on 8-bit keys from a universe of 4 keys, at most 6 stored elements']
OUTSIDE = ['histories longer than 6 operations, key universes larger than 4', 'LRU caches with more than the stated bound']
EXPLANATION = 'symbolic operation histories against reference multiset / recency-list models; CBMC heap checks for exact node release'
