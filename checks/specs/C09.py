from vrun import Query
SRC = 'C09_losertree.cpp'
NAMES = ['Copy', 'CopyStable', 'Pointer', 'PointerStable', 'CopyUnguarded', 'CopyUnguardedStable', 'PointerUnguarded', 'PointerUnguardedStable']

def queries():
    qs = []
    for v, nm in enumerate(NAMES):
        for k in (1, 2, 3, 4, 5, 8):
            for h in (2, 4, 6):
                for cg in (False, True):
                    # measured: k = 3, h = 4 takes 20-110 s per variant; k = 4, h = 4 takes 30 s (unguarded) .. > 20 min (CopyStable)
                    quick = (h == 4 and k <= 3 and not cg) or (h == 2 and k in (4, 5) and not cg)
                    if (h == 6 and k == 8) or (h == 2 and k < 4): continue
                    qs.append(Query('%s_k%d_h%d%s' % (nm, k, h, '_gt' if cg else ''), SRC, 'h_losertree',
                                    'LoserTree%s, %d players, %d symbolic replace/exhaust steps, 8-bit keys, comparator %s, keys not assumed monotone' % (nm, k, h, '>' if cg else '<'),
                                    defs=['VARIANT=%d' % v, 'K=%d' % k, 'H=%d' % h] + (['CMP_GREATER'] if cg else []),
                                    tiers=('quick', 'thorough') if quick else ('thorough',), timeout=(900 if quick else 3600), weight=k * h))
    return qs

ASSUMPTIONS = ['unguarded variants: every key strictly precedes the sentinel and no player is ever exhausted (documented precondition)',
               'comparators are < and > on 8-bit keys']
OUTSIDE = ['more than 8 players, more than 6 replace steps', 'non-trivially-copyable value types']
EXPLANATION = 'symbolic initial keys/exhaustion per player, init(), then symbolic feed/exhaust steps; after each step the winner is live, minimal, and (stable) smallest index among equivalents'
