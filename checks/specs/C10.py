from vrun import Query
SRC = 'C10_threadpool.cpp'
CFG = {0: 'two independent jobs', 1: 'a job enqueues another job', 2: 'a job calls terminate(), caller waits with loop_until_terminate', 3: 'two threads wait in loop_until_empty'}

def queries():
    qs = []
    for w in (1, 2):
        for cfg in (0, 1, 2, 3):
            quick = (w == 1) or (w == 2 and cfg == 0)
            nt = 1 + w + (1 if cfg == 3 else 0)
            qs.append(Query('pool_w%d_cfg%d' % (w, cfg), SRC, 'h_threadpool',
                            'ThreadPool with %d worker(s): %s; main thread enqueues, waits, destroys the pool; every interleaving at mutex / condition-variable / atomic-operation granularity' % (w, CFG[cfg]),
                            defs=['WORKERS=%d' % w, 'CONFIG=%d' % cfg], link=['tlx/thread_pool.cpp'], conc=True, nt=nt, rounds=40 if w == 1 else 64, yield_atomics=True,
                            ll2c=['--alloc-cap', '512', '--unreachable', '_M_reallocate_map', '--unreachable', '_M_push_back_aux', '--unreachable', '_M_pop_front_aux', '--unreachable', '_M_release_last_use_cold', '--no-yield', '_Sp_counted_base'], tiers=('quick', 'thorough') if quick else ('thorough',), timeout=10800 if quick else 21600, unwind=4, max_unwind=100, weight=w * 4 + cfg, mem_gb=40))
    return qs

ASSUMPTIONS = ['std::deque growth paths (_M_reallocate_map, _M_push_back_aux, _M_pop_front_aux) are replaced by asserted-unreachable bodies: with at most 3 queued jobs they are never entered (the assertion would fail otherwise)',
               'threads are lazily sequentialised: context switches only at visible operations (mutex lock, condition-variable wait, join, every atomic load/store/RMW); sound for data-race-free executions; the job counters are plain variables, a double execution is caught by their assertions',
               'sequential consistency for atomics; no spurious wake-ups', 'jobs do not throw; the init_thread delegate is empty', 'counterexamples are replayed on the gcc build of the sequentialised C']
OUTSIDE = ['more than 2 workers, more than 3 jobs', 'throwing jobs, init_thread callbacks', 'weak-memory reorderings']
EXPLANATION = 'real thread_pool.cpp (ctor, dtor, enqueue, worker, loop_until_empty/terminate, terminate) with std::deque and Delegate, workers + callers as step functions under a symbolic scheduler'
