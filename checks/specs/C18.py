from vrun import Query
SRC = 'C18_stringview.cpp'
GROUPS = ['compare_relops_startsends', 'find_rfind', 'find_of_family', 'substr_copy_remove_at_tostring']

def queries():
    qs = []
    for hl in range(0, 5):
        for nl in range(0, 4):
            for g in range(4):
                if g == 3 and nl != 0: continue   # group 3 does not use the needle
                quick = (hl in (0, 2, 3) and nl in (0, 1, 2)) and not (hl == 3 and nl == 2 and g != 0)
                qs.append(Query('g%d_h%d_n%d' % (g, hl, nl), SRC, 'h_stringview',
                                'methods %s; haystack length %d, needle length %d, bytes from {0x00,a,b,0x80,0xFF}, pos/n from {0..6, npos-1, npos}' % (GROUPS[g], hl, nl),
                                defs=['HL=%d' % hl, 'NL=%d' % nl, 'GROUP=%d' % g], tiers=('quick', 'thorough') if quick else ('thorough',), timeout=900 if quick else 3600, unwind=8, weight=hl * 4 + nl))
    for hl, nl in ((2, 1), (3, 2)):
        for g in range(3):
            qs.append(Query('g%d_h%d_n%d_fullbytes' % (g, hl, nl), SRC, 'h_stringview', 'methods %s; haystack %d, needle %d, all 256 byte values' % (GROUPS[g], hl, nl),
                            defs=['HL=%d' % hl, 'NL=%d' % nl, 'GROUP=%d' % g, 'FULLBYTES'], tiers=('thorough',), timeout=3600, unwind=8))
    return qs

ASSUMPTIONS = ['cases where std::string_view is undefined are excluded: remove_prefix/remove_suffix with n > size(), front()/back() on an empty view, operator[] out of range, (ptr, n) overloads with n beyond the buffer',
               'the const char* overloads read the buffer up to its first NUL (a NUL terminator follows every buffer)',
               'libstdc++ exception constructors (binary-only) are body-less; only the exception type is compared']
OUTSIDE = ['haystack longer than 4 bytes, needle longer than 3', 'operator<< (iostream)', 'std::hash specialisation']
EXPLANATION = 'differential harness: every StringView query vs the real std::string_view on the same symbolic bytes and arguments'
