from vrun import Query, SmtQuery
import os
SRC = 'C20_math.cpp'
REF = dict(extra_c=['C20_ref.c'], native_extra=[os.path.join(os.path.dirname(os.path.dirname(os.path.dirname(os.path.abspath(__file__)))), 'harness', 'C20_ref.c')])

def Q(name, entry, desc, **kw):
    d = dict(REF); d.update(kw)
    return Query(name, SRC, entry, desc, **d)

def queries():
    qs = [
        Q('clz32', 'h_clz32', 'clz/clz_template <unsigned>,<int>: all 2^32 values'),
        Q('clz64', 'h_clz64', 'clz/clz_template <unsigned long>,<long>,<unsigned long long>,<long long>: all 2^64 values', unwind=66, max_unwind=70),
        Q('clz_small', 'h_clz_small', 'clz/ctz/ffs _template <uint8_t>,<uint16_t>: all values'),
        Q('ctz32', 'h_ctz32', 'ctz/ctz_template 32 bit: all values'),
        Q('ctz64', 'h_ctz64', 'ctz/ctz_template 64 bit: all values', unwind=66, max_unwind=70),
        Q('ffs32', 'h_ffs32', 'ffs/ffs_template 32 bit: all values'),
        Q('ffs64', 'h_ffs64', 'ffs/ffs_template 64 bit: all values', unwind=66, max_unwind=70),
        Q('popcount32', 'h_popcount32', 'popcount(unsigned/int), popcount_generic32: all 2^32 values'),
        Q('popcount_small', 'h_popcount_small', 'popcount_generic8/16, popcount(uint8_t/uint16_t): all values'),
        Q('popcount64', 'h_popcount64', 'popcount 64-bit overloads: all 2^64 values', unwind=66, max_unwind=70),
        Q('popcount_generic64', 'h_popcount_generic64', 'popcount_generic64 (SWAR multiply): all 2^64 values', unwind=66, max_unwind=70, timeout=900),
        Q('popcount_range', 'h_popcount_range', 'popcount(const void*, size): size 0..9 enumerated, all byte values', unwind=12, tiers=('quick',)),
        Q('popcount_range13', 'h_popcount_range', 'popcount(const void*, size): size 0..13 enumerated, all byte values', unwind=16, defs=['PCR_MAX=13'], tiers=('thorough',), timeout=1800),
        Q('log2_32', 'h_log2_32', 'integer_log2_floor/_template/ceil <unsigned>,<int>: all x > 0'),
        Q('log2_64', 'h_log2_64', 'integer_log2_floor/_template/ceil 64-bit overloads: all x > 0', unwind=66, max_unwind=70),
        Q('log2_small', 'h_log2_small', 'integer_log2_floor_template <uint8_t>,<uint16_t>: all x > 0'),
        Q('pow2_32', 'h_pow2_32', 'is_power_of_two, round_up/down_to_power_of_two <unsigned>,<int>: all values (x >= 1 for rounding)'),
        Q('pow2_64', 'h_pow2_64', 'is_power_of_two, round_up/down_to_power_of_two 64-bit overloads: all values', unwind=66, max_unwind=70),
        Q('bswap', 'h_bswap', 'bswap16/32/64 intrinsic and _generic: all values'),
        Q('rot32', 'h_rot32', 'rol32/ror32 (x86 asm per SDM) and _generic: all x, all 2^32 shift counts'),
        Q('rot64', 'h_rot64', 'rol64/ror64 (x86 asm per SDM) and _generic: all x, all 2^32 shift counts', unwind=66, max_unwind=70),
        Q('divceil_small', 'h_divceil_small', 'div_ceil/round_up <uint8_t>: all n, all k > 0 (wider divisions: see ll2smt queries)'),
        Q('absdiff_sgn', 'h_absdiff_sgn', 'abs_diff <unsigned>,<uint64_t>,<uint8_t>,<int>; sgn <int>,<long long>,<int8_t>,<unsigned>: all values'),
    ]
    for fn, ct, d in (('p_divceil_u16', 'uint16_t', 'uint16_t'), ('p_divceil_u32', 'uint32_t', 'unsigned'), ('p_divceil_u64', 'uint64_t', 'uint64_t'), ('p_divceil_i32', 'int32_t', 'int (n >= 0, k > 0)'), ('p_divceil_i64', 'int64_t', 'long (n >= 0, k > 0)')):
        qs.append(SmtQuery('smt_' + fn[2:], 'C20_smt.cpp', fn, 'div_ceil / round_up <%s>: all n, all k > 0 with n + k - 1 representable; integer SMT (Int with explicit mod 2^N wrap), z3 + cvc5' % d, kind='int', ctype=ct, timeout=180))
    for i in range(0, 4):
        for j in range(0, 4):
            for pe in (False, True):
                fn = 'p_agg_%s_%d_%d' % ('pluseq' if pe else 'plus', i, j)
                qs.append(SmtQuery('smt_' + fn[2:], 'C20_smt.cpp', fn, 'Aggregate<double>: %s of aggregates with %d and %d values == feeding all values into one aggregate (count, min, max, mean, variance(0), variance(1)); real arithmetic (QF_NRA), all real values' % ('A += B' if pe else 'A + B', i, j),
                                   kind='real', timeout=180, tiers=('quick', 'thorough') if i + j <= 4 else ('thorough',)))
                if i <= 2 and j <= 1:
                    qs.append(SmtQuery('smt_' + fn[2:] + '_thenadd', 'C20_smt.cpp', fn, 'same, and the combined aggregate keeps agreeing with the sequential one after one further add()', kind='real', defs=['AGG_THEN_ADD'], timeout=180))
    return qs

ASSUMPTIONS = ['log2 of x <= 0, rounding of x <= 0 to a power of two, div_ceil/round_up with k == 0, negative operands or n + k - 1 not representable are outside the documented domain and excluded',
               'x86 rol/ror inline assembly is modelled per the Intel SDM (count masked to 5/6 bits)']
OUTSIDE = ['128-bit types', 'floating-point instantiations of sgn/abs_diff', 'Aggregate: IEEE rounding itself (the identities are decided over the reals, as the property says "up to floating-point rounding"); multisets larger than 3 + 3 values']
EXPLANATION = 'bit-vector equivalence of each tlx math helper (intrinsic overload, *_template, *_generic) with a definitional C reference on the full domain of the type'
