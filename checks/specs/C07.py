from vrun import Query
SRC = 'C07_pmwm.cpp'

def mk(lens, nth, split, stable, quick, ovs=1, timeout=None):
    k = len(lens); l = list(lens) + [1] * (3 - k)
    name = 'k%d_%s_p%d_%s_%s%s' % (k, 'x'.join(map(str, lens)), nth, split, 'stable' if stable else 'unstable', '_ovs%d' % ovs if ovs != 1 else '')
    return Query(name, SRC, 'h_pmwm', 'parallel_multiway_merge_base<%s>: %d sequences of lengths %s (8-bit keys sorted by assumption, identity tags), requested length 0..total symbolic, %d threads in every start order, %s splitting (oversampling %d)'
                 % ('stable' if stable else 'unstable', k, lens, nth, split, ovs),
                 defs=['KSEQ=%d' % k, 'LENS={%d, %d, %d}' % tuple(l), 'NTH=%d' % nth, 'SPLIT=MWMSA_%s' % split.upper(), 'STABLE=%d' % stable, 'OVERSAMPLING=%d' % ovs],
                 link=['tlx/algorithm/parallel_multiway_merge.cpp'], conc=True, nt=nth + 1, rounds=2 * nth + 4, ll2c=['--alloc-cap', '128', '--introsort-small'],
                 tiers=('quick', 'thorough') if quick else ('thorough',), timeout=timeout or (3600 if quick else 14400), unwind=4, max_unwind=64, weight=sum(lens) * nth, mem_gb=30)

def queries():
    qs = []
    qs.append(mk((1, 1), 1, 'sampling', 1, True)); qs.append(mk((1, 1), 2, 'sampling', 1, True)); qs.append(mk((2, 1), 2, 'sampling', 1, True))
    qs.append(mk((1, 1), 1, 'exact', 1, True)); qs.append(mk((1, 1), 2, 'exact', 1, True)); qs.append(mk((2, 1), 2, 'exact', 1, False))
    for lens in ((2, 2), (3, 1), (1, 1, 1), (2, 1, 1)):
        for nth in (2, 3):
            for split in ('sampling', 'exact'):
                qs.append(mk(lens, nth, split, 1, False)); qs.append(mk(lens, nth, split, 0, False))
    qs.append(mk((2, 2), 2, 'sampling', 1, False, ovs=2)); qs.append(mk((1, 1), 4, 'sampling', 1, False)); qs.append(mk((1, 1), 4, 'exact', 1, False))
    return qs

JOBS = {'quick': 4, 'thorough': 3}
ASSUMPTIONS = ['thread bodies contain no synchronisation: each runs as one scheduler step, all start orders explored; every store to the output array is counted by the element type (exactly one write per slot), which decides write-write races on the output; reads are not monitored',
               'libstdc++ std::__introsort_loop replaced by its <= 16 element contract; variable-size allocations modelled by fixed 128-byte blocks (asserted to fit)']
OUTSIDE = ['more than 3 sequences, more than 4 threads, sequences longer than 4', 'the public wrappers that choose between the sequential and the parallel path by size thresholds']
EXPLANATION = 'real parallel_multiway_merge_base with real splitting code, threads as step functions; output compared with a sequential stable merge, single-writer monitor on the output'
