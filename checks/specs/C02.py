import sys, os
sys.path.insert(0, os.path.dirname(os.path.abspath(__file__)))
from C01 import build, JOBS, OUTSIDE
def queries(): return build('C02')
ASSUMPTIONS = ['same histories as C01; additionally the tree\'s own verify() runs after every mutating operation (tlx_die_unless -> failing assertion), a counting allocator asserts allocated == freed at the end, CBMC checks use-after-free, double free and leaks']
EXPLANATION = 'invariants decided by executing the real verify() symbolically after each step of the C01 histories; allocation discipline by a counting allocator + CBMC heap checks'
