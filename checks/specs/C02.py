import sys, os, re
sys.path.insert(0, os.path.dirname(os.path.abspath(__file__)))
from C01 import build, JOBS, OUTSIDE
# quick tier: the C01 quick histories that reach every structural case of the tree (split, merge, shift, root growth and collapse, emptying,
# duplicate run across leaves, copy / assign / clear / bulk_load); the remaining C01 histories run with verify() in the thorough tier
QUICK = re.compile(r'^(set_l4i4_lin_p1_g0_k1_o[012]|set_l4i4_lin_p2_g0_k1_o[12]|multiset_l4i4_lin_p7_g0_k1_o0|set_l4i4_lin_p8_g0_k1_o[0123]|map_l4i4_lin_p1_g1_k1_o[013]|map_l4i4_lin_p1_g1_k1_o4_b5)$')
def queries():
    qs = build('C02')
    for q in qs:
        q.tiers = ('quick', 'thorough') if QUICK.match(q.name) else ('thorough',)
    return qs
ASSUMPTIONS = ['same histories as C01; additionally the tree\'s own verify() runs after every mutating operation (tlx_die_unless -> failing assertion), a counting allocator asserts allocated == freed at the end, CBMC checks use-after-free, double free and leaks']
EXPLANATION = 'invariants decided by executing the real verify() symbolically after each step of the C01 histories; allocation discipline by a counting allocator + CBMC heap checks'
