from vrun import Query
SRC = 'C05_mwmerge.cpp'
ALGOS = {'lt': 'MWMA_LOSER_TREE', 'comb': 'MWMA_LOSER_TREE_COMBINED', 'sent': 'MWMA_LOSER_TREE_SENTINEL', 'bubble': 'MWMA_BUBBLE'}

def mk(k, L, algo, stable, sent, pad=0, gt=False, quick=False, timeout=None):
    name = 'k%d_L%d_%s_%s%s%s%s' % (k, L, algo, 'stable' if stable else 'unstable', '_sentinels' if sent else '', '_ptrtree' if pad else '', '_gt' if gt else '')
    return Query(name, SRC, 'h_mwmerge',
                 '%d sequences, each length 0..%d (symbolic), 8-bit keys sorted by assumption, requested length 0..total (symbolic), %s, %s, %s, element %d bytes, comparator %s'
                 % (k, L, ALGOS[algo], 'stable' if stable else 'unstable', 'sentinel entry point' if sent else 'no sentinels', 2 + pad, '>' if gt else '<'),
                 defs=['KSEQ=%d' % k, 'MAXLEN=%d' % L, 'ALGO=' + ALGOS[algo], 'STABLE=%d' % stable, 'SENT=%d' % sent, 'PAD=%d' % pad] + (['CMP_GREATER'] if gt else []),
                 tiers=('quick', 'thorough') if quick else ('thorough',), timeout=timeout or (900 if quick else 3600), objbits=10, weight=k * L * (2 if algo in ('lt', 'bubble') else 1), mem_gb=14)

def queries():
    qs = []
    # quick: every k with the default algorithm (stable), plus each other algorithm family once
    for k in (0, 1, 2):
        qs.append(mk(k, 2, 'comb', 1, 0, quick=True))
    qs.append(mk(3, 2, 'comb', 1, 0, quick=True))
    qs.append(mk(3, 2, 'lt', 1, 0, quick=True))          # k=3 non-combined -> guarded 3-way variant
    qs.append(mk(3, 2, 'sent', 1, 1, quick=True))        # unguarded 3-way variant with sentinels
    qs.append(mk(4, 1, 'comb', 1, 0, timeout=7200))   # measured: the 4-way goto state machine (43 back-edge targets) does not finish bound tuning in 15 min
    qs.append(mk(4, 1, 'lt', 0, 0, timeout=7200))
    qs.append(mk(5, 1, 'lt', 1, 0, quick=True))
    qs.append(mk(5, 1, 'bubble', 1, 0, quick=True))
    qs.append(mk(5, 1, 'comb', 0, 0, quick=True))
    qs.append(mk(5, 1, 'sent', 1, 1, quick=True))
    qs.append(mk(5, 1, 'lt', 1, 0, pad=22, quick=True))
    # thorough: all algorithms x stable/unstable x sentinels, larger lengths
    for k, L in ((3, 3), (4, 2), (5, 2), (6, 1)):
        for algo in ALGOS:
            for stable in (1, 0):
                for sent in (0, 1):
                    if algo == 'sent' and not sent: continue
                    qs.append(mk(k, L, algo, stable, sent))
    for k in (3, 4, 5):
        qs.append(mk(k, 2 if k < 5 else 1, 'comb', 1, 0, gt=True))
        qs.append(mk(k, 2 if k < 5 else 1, 'lt', 1, 0, pad=22))
    names = set(); out = []
    for q in qs:
        if q.name in names: continue
        names.add(q.name); out.append(q)
    return out

JOBS = {'quick': 13, 'thorough': 8}
ASSUMPTIONS = ['input sequences are sorted by the comparator (documented precondition)', 'sentinel entry points: the slot after each sequence holds a key strictly greater than every real key',
               'comparators are < and > on an 8-bit key; elements carry an identity tag (sequence, position)']
OUTSIDE = ['k > 6, sequence length > 3', 'non-trivially-copyable element types']
EXPLANATION = 'differential harness: real multiway merge vs a stable k-way selection loop; output keys (and tags for stable variants), returned iterator and per-input advance compared'
