from vrun import Query
SRC = 'C03_strsort.cpp'
AN = {0: 'sort_strings (public entry, production thresholds)', 1: 'insertion_sort', 2: 'multikey_quicksort', 3: 'radixsort_CE0', 4: 'radixsort_CE2', 5: 'radixsort_CE3', 6: 'radixsort_CI2', 7: 'radixsort_CI3'}

def mk(algo, n, maxlen, lcp, thr, memory, quick, timeout=None):
    name = 'a%d_n%d_l%d%s%s%s' % (algo, n, maxlen, '_lcp' if lcp else '', '_thr%d' % thr if thr else '', '_mem%d' % memory if memory else '')
    defs = ['ALGO=%d' % algo, 'N=%d' % n, 'MAXLEN=%d' % maxlen, 'WITH_LCP=%d' % lcp, 'MEMORY=%d' % memory] + (['TLX_VERIF_INSSORT_THRESHOLD=%d' % thr] if thr else [])
    return Query(name, SRC, 'h_strsort', '%s%s on %d C strings of length 0..%d, all byte values%s, memory limit %d' % (AN[algo], ' with LCP output' if lcp else '', n, maxlen, ', insertion-sort threshold lowered to %d by the guarded hook' % thr if thr else '', memory),
                 defs=defs, ll2c=['--alloc-cap', '4096'], tiers=('quick', 'thorough') if quick else ('thorough',), timeout=timeout or (1800 if quick else 7200), unwind=4, max_unwind=300, weight=n * maxlen * (3 if algo >= 3 else 1), mem_gb=30,
                 recursion=(maxlen + 1) if algo >= 2 else 0)   # recursion descends one character per level: maxlen + 1 re-entries suffice (the tuner raises the bound if CBMC's recursion assertion fails)

def queries():
    qs = []
    for lcp in (0, 1):
        qs.append(mk(0, 3, 2, lcp, 0, 0, True)); qs.append(mk(1, 3, 2, lcp, 0, 0, True)); qs.append(mk(0, 4, 2, lcp, 0, 0, lcp == 0))
        qs.append(mk(2, 2, 1, lcp, 2, 0, False)); qs.append(mk(2, 2, 2, lcp, 2, 0, False)); qs.append(mk(2, 3, 2, lcp, 2, 0, False))   # measured: multikey quicksort on 3 strings: > 30 GB (3-way recursion)
        for algo in (3, 4, 5, 6, 7):
            qs.append(mk(algo, 2, 1, lcp, 2, 0, False)); qs.append(mk(algo, 3, 1, lcp, 2, 0, False))   # radix steps (256-entry bucket tables): measured 12-30 GB / 20 M variables per query -> thorough tier only
            qs.append(mk(algo, 3, 2, lcp, 2, 0, False)); qs.append(mk(algo, 4, 2, lcp, 2, 0, False))
        for memory in (1, 64, 4096):
            qs.append(mk(5, 3, 1, lcp, 2, memory, False))
        qs.append(mk(0, 5, 3, lcp, 0, 0, False)); qs.append(mk(2, 4, 2, lcp, 2, 0, False)); qs.append(mk(2, 5, 2, lcp, 3, 0, False))
    qs.append(Query('std_n2_l2', SRC, 'h_strsort_std', 'sort_strings on 2 std::string objects of length 0..2 (NUL-free bytes): sorted and a permutation of the contents', defs=['N=2', 'MAXLEN=2'], ll2c=['--alloc-cap', '4096'], timeout=1800, unwind=4, max_unwind=300, tiers=('thorough',)))   # measured: no verdict within 1800 s
    qs.append(Query('std_n3_l2', SRC, 'h_strsort_std', 'sort_strings on 3 std::string objects of length 0..2', defs=['N=3', 'MAXLEN=2'], ll2c=['--alloc-cap', '4096'], timeout=7200, unwind=4, max_unwind=300, tiers=('thorough',)))
    return qs

JOBS = {'quick': 4, 'thorough': 2}
ASSUMPTIONS = ['queries marked thr lower the insertion-sort switch-over with the guarded hook TLX_VERIF_INSSORT_THRESHOLD so that quicksort / radix steps run on 3-5 strings; production thresholds (32) are used by the ALGO 0 queries',
               'strings are NUL-free up to their terminator (the property\'s precondition)']
OUTSIDE = ['the 16-bit radix steps (entered for >= 65536 strings only)', 'more than 5 strings, strings longer than 3 bytes', 'UPtrStdStringSet and StringSuffixSet representations (not yet covered)']
EXPLANATION = 'real sort_strings / insertion sort / multikey quicksort / 8-bit radix sort code on symbolic strings; permutation by address, order by a reference strcmp, exact LCP array'
