from vrun import Query
SRC = 'C12_countingptr.cpp'

def queries():
    qs = []
    for h in (3, 4, 5, 6, 7):
        qs.append(Query('seq_h%d' % h, SRC, 'h_countingptr',
                        'sequential history: %d symbolic operations out of 17 kinds over 3 CountingPtr<Obj> handles + 1 CountingPtr<Base>, up to 4 objects (incl. unify copies)' % h,
                        defs=['H=%d' % h], tiers=('quick', 'thorough') if h <= 3 else ('thorough',), timeout=900 if h <= 3 else 7200, unwind=5, weight=h))
    for nthr, nc, rounds, quick in ((2, 0, 18, True), (2, 1, 22, False), (2, 2, 34, False), (3, 1, 34, False)):   # quick: two threads dropping their handles (the decisive decrement race); copies add 20+ min
        qs.append(Query('conc_t%d_c%d' % (nthr, nc), 'C12_conc.cpp', 'h_countingptr_conc',
                        '%d threads, each copying (%d time(s)) and dropping handles to one shared object; every interleaving at the granularity of the atomic operations of inc_reference / dec_reference' % (nthr, nc),
                        defs=['NTHR=%d' % nthr, 'NCOPIES=%d' % nc], conc=True, nt=nthr + 1, rounds=rounds, yield_atomics=True, tiers=('quick', 'thorough') if quick else ('thorough',), timeout=3600 if quick else 14400, unwind=4, max_unwind=80, weight=nthr * nc * 3))
    return qs

ASSUMPTIONS = ['objects derive from tlx::ReferenceCounter and start with count zero (documented requirement)', 'std::atomic operations are sequentially consistent in the sequential histories']
OUTSIDE = ['histories longer than 7 operations, more than 4 handles / 4 objects', 'more than 3 threads / 2 copies per thread in the concurrent queries', 'custom deleters', 'weak-memory reorderings (atomics are sequentially consistent in the model)']
EXPLANATION = 'symbolic handle-operation histories; reference_count() compared with the number of handles that point to each object, destruction ledger per object, CBMC heap checks for use-after-free/double delete'
