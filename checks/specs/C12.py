from vrun import Query
SRC = 'C12_countingptr.cpp'

def queries():
    qs = []
    for h in (3, 4, 5, 6, 7):
        qs.append(Query('seq_h%d' % h, SRC, 'h_countingptr',
                        'sequential history: %d symbolic operations out of 17 kinds over 3 CountingPtr<Obj> handles + 1 CountingPtr<Base>, up to 4 objects (incl. unify copies)' % h,
                        defs=['H=%d' % h], tiers=('quick', 'thorough') if h <= 3 else ('thorough',), timeout=900 if h <= 3 else 7200, unwind=5, weight=h))
    return qs

ASSUMPTIONS = ['objects derive from tlx::ReferenceCounter and start with count zero (documented requirement)', 'std::atomic operations are sequentially consistent in the sequential histories']
OUTSIDE = ['histories longer than 7 operations, more than 4 handles / 4 objects', 'custom deleters', 'weak-memory reorderings']
EXPLANATION = 'symbolic handle-operation histories; reference_count() compared with the number of handles that point to each object, destruction ledger per object, CBMC heap checks for use-after-free/double delete'
