#!/usr/bin/env python3
"""replay.py <replays/<id>/<query>.json>: rebuild the harness natively (g++, ASan+UBSan) against /repo and run the recorded inputs"""
import json, sys, os, subprocess, tempfile
V = os.path.dirname(os.path.dirname(os.path.abspath(__file__)))
m = json.load(open(sys.argv[1]))
d = tempfile.mkdtemp(prefix='verif-replay-')
inp = os.path.join(d, 'in.txt'); open(inp, 'w').write('\n'.join(map(str, m['inputs'])) + '\n')
exe = os.path.join(d, 'a.out')
extra = [os.path.join(V, 'harness', x) for x in m.get('native_extra', [])]
cmd = ['g++', '-std=c++17', '-I/repo', '-I' + os.path.join(V, 'harness'), '-DTLX_VERIF', '-O1', '-g', '-fsanitize=address,undefined', '-fno-lifetime-dse', '-w', '-pthread',
       '-DVERIF_ENTRY=' + m['entry'], '-DVERIF_NATIVE'] + ['-D' + x for x in m['defs']] + [os.path.join(V, 'harness', m['harness'])] + \
      ['/repo/' + r for r in m['link']] + [os.path.join(V, 'engine/rt/native_rt.cpp')] + extra + ['-o', exe]
subprocess.check_call(cmd)
r = subprocess.run([exe, inp], stdout=subprocess.PIPE, stderr=subprocess.STDOUT, text=True)
print(r.stdout[-3000:])
print('expected failing assertion:', m['failing_assertion'])
import shutil; shutil.rmtree(d, ignore_errors=True)
sys.exit(1 if ('ASSERT-FAIL' in r.stdout or 'Sanitizer' in r.stdout or 'runtime error' in r.stdout) else 0)
