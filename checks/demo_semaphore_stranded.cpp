// native demonstration of the stranded waiter found by C11/semaphore_t3_c1: wait(2) and wait(1) blocked, one signal()
#include <tlx/semaphore.hpp>
#include <thread>
#include <chrono>
#include <atomic>
#include <cstdio>
int main() {
    int stranded = 0;
    for (int round = 0; round < 20; ++round) {
        tlx::Semaphore sem(0); std::atomic<bool> b_done{false};
        std::thread A([&] { sem.wait(2); });
        std::this_thread::sleep_for(std::chrono::milliseconds(20));
        std::thread B([&] { sem.wait(1); b_done = true; });
        std::this_thread::sleep_for(std::chrono::milliseconds(20));
        sem.signal();                                   // value 1 covers B's request
        std::this_thread::sleep_for(std::chrono::milliseconds(50));
        if (!b_done) ++stranded;
        sem.signal(3);                                  // release everybody
        A.join(); B.join();
    }
    printf("B stranded although value covered its request in %d of 20 rounds\n", stranded);
    return stranded ? 1 : 0;
}
