#!/usr/bin/env python3
"""setup: nothing to build (Python + system clang/cbmc); verifies the tool chain is present and ll2c imports."""
import shutil, sys, subprocess, os
need = ['clang++-14', 'llvm-link-14', 'cbmc', 'g++', 'gcc']
miss = [t for t in need if not shutil.which(t)]
if miss:
    print('missing tools:', miss); sys.exit(1)
V = os.path.dirname(os.path.dirname(os.path.abspath(__file__)))
subprocess.check_call([sys.executable, '-c', 'import sys; sys.path.insert(0, %r); import ll2c, vrun' % os.path.join(V, 'engine')])
os.makedirs(os.path.join(V, 'evidence'), exist_ok=True)
print('setup ok')
