#!/usr/bin/env python3
"""seedtest.py <property> <seedout-dir>/<name> [--only regex] [--tier quick]
Confirms a seeded change (demo passes without / fails with it, in the scratch worktree /tmp/seed_<property>) and runs the property's check against
the patched worktree (VERIF_REPO).  Copies patch.diff/demo.cpp/meta.json to /verif/seeded/<property>_<name>/ and records the outcome there."""
import sys, os, json, subprocess, shutil, argparse, re
V = os.path.dirname(os.path.dirname(os.path.abspath(__file__)))
ap = argparse.ArgumentParser(); ap.add_argument('prop'); ap.add_argument('dir'); ap.add_argument('--only'); ap.add_argument('--tier', default='quick'); ap.add_argument('--wt')
o = ap.parse_args()
wt = o.wt or '/tmp/seed_' + o.prop
name = os.path.basename(o.dir.rstrip('/'))
dst = os.path.join(V, 'seeded', '%s_%s' % (o.prop, name)); os.makedirs(dst, exist_ok=True)
for f in ('patch.diff', 'demo.cpp', 'meta.json'):
    if os.path.exists(os.path.join(o.dir, f)): shutil.copy(os.path.join(o.dir, f), dst)
meta = json.load(open(os.path.join(dst, 'meta.json')))
def sh(cmd, **kw): return subprocess.run(cmd, shell=True, stdout=subprocess.PIPE, stderr=subprocess.STDOUT, text=True, **kw)
sh('git -C %s checkout -- .' % wt)
sh('git -C %s checkout -q --detach $(git -C /repo rev-parse HEAD)' % wt)   # seeds are applied on top of the current /repo HEAD
def demo():
    extra = ' '.join(os.path.join(wt, x) for x in re.findall(r'(tlx/[A-Za-z0-9_/]+\.cpp)', meta.get('demo_cmd', '')))
    r = sh('g++ -std=c++17 -O1 -I%s %s/demo.cpp %s -pthread -o /tmp/seeddemo_%s && /tmp/seeddemo_%s' % (wt, dst, extra, o.prop, o.prop), timeout=600)
    return r.returncode, r.stdout[-400:]
rc0, out0 = demo()
a = sh('git -C %s apply %s/patch.diff' % (wt, dst))
if a.returncode != 0: print('patch does not apply:', a.stdout); sys.exit(2)
rc1, out1 = demo()
print('demo without change rc=%d, with change rc=%d' % (rc0, rc1))
confirmed = (rc0 == 0 and rc1 != 0)
env = dict(os.environ, VERIF_REPO=wt)
cmd = 'python3 %s/checks/check.py %s %s --no-evidence %s' % (V, o.prop, o.tier, ('--only "%s"' % o.only) if o.only else '')
r = subprocess.run(cmd, shell=True, stdout=subprocess.PIPE, stderr=subprocess.STDOUT, text=True, env=env)
sh('git -C %s checkout -- .' % wt)
lines = [l for l in r.stdout.split('\n') if l.startswith(('VIOLATION', '   query=', '==', 'INCONCLUSIVE'))]
print('\n'.join(lines[-12:]))
detected = 'VIOLATION property=' in r.stdout
meta['verif'] = dict(demo_confirmed=confirmed, demo_rc_without=rc0, demo_rc_with=rc1, check_cmd=cmd + '  (VERIF_REPO=patched scratch worktree)', check_exit=r.returncode, detected=detected,
                     detecting_queries=[l.strip() for l in r.stdout.split('\n') if l.startswith('   query=')][:6])
json.dump(meta, open(os.path.join(dst, 'meta.json'), 'w'), indent=1)
print('SEED %s_%s: demo_confirmed=%s detected=%s exit=%d' % (o.prop, name, confirmed, detected, r.returncode))
